#!/usr/bin/env python3
"""Mutation self-test of the monitors (DESIGN.md §2.9).

Each mutant is a small, realistic source change to a scratch copy of /repo that
still compiles; the quick check of the named property must report a VIOLATION.
usage: mutants.py [Cnn ...] [-k substring]
"""
import os, shutil, subprocess, sys, tempfile, json, time

M = []
def mut(prop, name, file, old, new, count=1, env=None):
    M.append(dict(prop=prop, name=name, file=file, old=old, new=new, count=count, env=env or {}))

# ---- C04
mut("C04", "no-truncate", "pkg/hack/hajack_clienthello_conn.go",
    "		c.buf.Truncate(c.expectedLen)\n", "")
mut("C04", "off-by-one-len", "pkg/hack/hajack_clienthello_conn.go",
    "c.expectedLen = recordHeaderLen + handshakeLen", "c.expectedLen = recordHeaderLen + handshakeLen - 1")
mut("C04", "header-at-4", "pkg/hack/hajack_clienthello_conn.go",
    "if bufLen < 5 {", "if bufLen < 4 {")
mut("C04", "lt-vs-le", "pkg/hack/hajack_clienthello_conn.go",
    "	if bufLen < c.expectedLen {\n		return false\n	}", "	if bufLen <= c.expectedLen {\n		return false\n	}")
mut("C04", "uint16-again", "pkg/hack/hajack_clienthello_conn.go",
    "c.expectedLen = recordHeaderLen + handshakeLen", "c.expectedLen = int(uint16(recordHeaderLen + handshakeLen))")
mut("C04", "no-type-check", "pkg/hack/hajack_clienthello_conn.go",
    "if recType != recordTypeHandshake {", "if false {")
mut("C04", "read-modifies", "pkg/hack/hajack_clienthello_conn.go",
    "			c.hijackClientHello(b[:n])\n", "			c.hijackClientHello(b[:n])\n			if n > 6 && c.buf.Len() > 3000 {\n				b[6] ^= 1\n			}\n")
# ---- C20
mut("C20", "ignore-maxframe", "pkg/http2/writesched.go",
    "	if wr.stream.sc.maxFrameSize < allowed {\n		allowed = wr.stream.sc.maxFrameSize\n	}\n", "")
mut("C20", "undo-D7-fix", "pkg/http2/writesched_priority.go",
    "			if n == curr {\n", "			if false && n == curr {\n")
mut("C20", "rr-head-not-advanced-on-close", "pkg/http2/writesched_roundrobin.go",
    "		if ws.head == q {\n			ws.head = q.next\n		}\n", "")
mut("C20", "endstream-on-split", "pkg/http2/writesched.go",
    "				endStream: false,\n", "				endStream: wd.endStream,\n")
mut("C20", "rest-loses-a-byte", "pkg/http2/writesched.go",
    "				p:         wd.p[allowed:],", "				p:         wd.p[min(int(allowed)+1, len(wd.p)):],")
mut("C20", "control-after-data-random", "pkg/http2/writesched_random.go",
    "	if !ws.zero.empty() {\n		return ws.zero.shift(), true\n	}\n	// Iterate", "	if !ws.zero.empty() && len(ws.sq) == 0 {\n		return ws.zero.shift(), true\n	}\n	// Iterate")
mut("C20", "exclusive-cycle", "pkg/http2/writesched_priority.go",
    "			parent.setParent(n.parent)\n			break\n", "			break\n")
mut("C20", "closed-removal-drops-kids", "pkg/http2/writesched_priority.go",
    "	for n.kids != nil {\n		n.kids.setParent(n.parent)\n	}\n	n.setParent(nil)", "	n.setParent(nil)")
mut("C20", "prio-pop-skips-zero-window-sibling", "pkg/http2/writesched_priority.go",
    "		wr, ok = n.q.consume(limit)\n		if !ok {\n			return false\n		}", "		wr, ok = n.q.consume(limit)\n		if !ok {\n			return n.id%8 == 5\n		}")

# ---- C18
mut("C18", "undo-D6", "pkg/http2/hpack/hpack.go",
    "		if !isSizeUpdate {\n			d.firstField = false\n		}", "		_ = isSizeUpdate\n		d.firstField = false")
mut("C18", "undo-D15", "pkg/http2/hpack/encode.go",
    "		if v < e.minSize {\n			e.minSize = v\n		}\n		e.tableSizeUpdate = true\n		e.dynTab.setMaxSize(v)\n	}\n}\n\n// shouldIndex", "		e.tableSizeUpdate = true\n		e.dynTab.setMaxSize(v)\n	}\n}\n\n// shouldIndex")
mut("C18", "evict-ge", "pkg/http2/hpack/hpack.go",
    "for dt.size > dt.maxSize && n < dt.table.len() {", "for dt.size >= dt.maxSize && n < dt.table.len() {")
mut("C18", "index-off-by-one", "pkg/http2/hpack/hpack.go",
    "	if i > uint64(d.maxTableIndex()) {\n		return\n	}", "	if i > uint64(d.maxTableIndex())+1 {\n		return\n	}")
mut("C18", "sensitive-lost", "pkg/http2/hpack/hpack.go",
    "	hf.Sensitive = it.sensitive()\n", "	hf.Sensitive = it.sensitive() && len(hf.Value) < 20\n")
mut("C18", "size-update-unchecked", "pkg/http2/hpack/hpack.go",
    "	if size > uint64(d.dynTab.allowedMaxSize) {", "	if size > uint64(d.dynTab.allowedMaxSize)+4096 {")
mut("C18", "huffman-padding-unchecked", "pkg/http2/hpack/huffman.go",
    "	if mask := uint(1<<cbits - 1); cur&mask != mask {", "	if mask := uint(1<<cbits - 1); cbits < 3 && cur&mask != mask {")
mut("C18", "encoder-indexes-sensitive", "pkg/http2/hpack/encode.go",
    "	return !f.Sensitive && f.Size() <= e.dynTab.maxSize", "	return f.Size() <= e.dynTab.maxSize")
mut("C18", "encoder-index-too-big", "pkg/http2/hpack/encode.go",
    "	return !f.Sensitive && f.Size() <= e.dynTab.maxSize", "	return !f.Sensitive && f.Size() <= e.dynTab.maxSize+8")
mut("C18", "savebuf-drops-byte-on-long-fragment", "pkg/http2/hpack/hpack.go",
    "			d.saveBuf.Write(d.buf)\n			return len(p), nil", "			if len(d.buf) > 70 {\n				d.buf = d.buf[:len(d.buf)-1]\n			}\n			d.saveBuf.Write(d.buf)\n			return len(p), nil")
mut("C18", "literal-never-indexed-as-indexed", "pkg/http2/hpack/hpack.go",
    "		return d.parseFieldLiteral(4, indexedNever)", "		return d.parseFieldLiteral(4, indexedFalse)")

# ---- C14
CW = "pkg/certwatcher/certwatcher.go"
mut("C14", "swap-before-validation", CW,
    "	if err != nil {\n		return err\n	}\n\n	cw.Lock()\n	cw.currentCert = &cert\n	cw.Unlock()\n",
    "	cw.Lock()\n	cw.currentCert = &cert\n	cw.Unlock()\n	if err != nil {\n		return err\n	}\n")
mut("C14", "no-rewatch-after-remove", CW,
    "	if isRemove(event) {\n		if err := cw.watcher.Add(event.Name); err != nil {", "	if false && isRemove(event) {\n		if err := cw.watcher.Add(event.Name); err != nil {")
mut("C14", "only-cert-path-events", CW,
    "	vlogf(\"certificate event: %s\", event)\n", "	vlogf(\"certificate event: %s\", event)\n	if event.Name != cw.certPath {\n		return\n	}\n")
mut("C14", "ignore-remove-events", CW,
    "	if !(isWrite(event) || isRemove(event) || isCreate(event)) {", "	if !(isWrite(event) || isCreate(event)) {")
mut("C14", "ignore-write-events", CW,
    "	if !(isWrite(event) || isRemove(event) || isCreate(event)) {", "	if !(isRemove(event) || isCreate(event)) {")
mut("C14", "key-half-cached-only-cert-reloaded", CW,
    "	cw.Lock()\n	cw.currentCert = &cert\n", "	cw.Lock()\n	if cw.currentCert != nil {\n		cert.PrivateKey = cw.currentCert.PrivateKey\n	}\n	cw.currentCert = &cert\n")
mut("C14", "no-lock-around-currentCert-write", CW,
    "	cw.Lock()\n	cw.currentCert = &cert\n	cw.Unlock()\n", "	cw.currentCert = &cert\n")
mut("C14", "no-rlock-in-GetCertificate", CW,
    "	cw.RLock()\n	defer cw.RUnlock()\n	return cw.currentCert, nil", "	return cw.currentCert, nil")
mut("C14", "rewatch-only-reload-skipped-on-remove", CW,
    "			logf(\"error re-watching file: %s\", err)\n		}\n	}\n", "			logf(\"error re-watching file: %s\", err)\n		}\n		return\n	}\n")
mut("C14", "key-write-events-ignored", CW,
    "	if err := cw.ReadCertificate(); err != nil {\n		logf(\"error re-reading certificate: %s\", err)\n	}\n}",
    "	if event.Name == cw.keyPath && !isRemove(event) {\n		return\n	}\n	if err := cw.ReadCertificate(); err != nil {\n		logf(\"error re-reading certificate: %s\", err)\n	}\n}")
mut("C14", "tlsconfig-pins-first-certificate", "fingerproxy.go",
    "		GetCertificate: cw.GetCertificate,\n", "		GetCertificate: func() func(*tls.ClientHelloInfo) (*tls.Certificate, error) {\n			c, err := cw.GetCertificate(nil)\n			return func(*tls.ClientHelloInfo) (*tls.Certificate, error) { return c, err }\n		}(),\n")
mut("C14", "start-watches-cert-only", CW,
    "	files := []string{cw.certPath, cw.keyPath}\n", "	files := []string{cw.certPath}\n")

# ---- C01
mut("C01", "groups-grease-not-filtered", "pkg/ja3/ja3.go",
    "		for _, e := range hello.SupportedGroups[:lastElem] {\n			// filter GREASE values\n			if !greaseValues[uint16(e)] {", "		for _, e := range hello.SupportedGroups[:lastElem] {\n			// filter GREASE values\n			if true {")
mut("C01", "ext-trailing-dash", "pkg/ja3/ja3.go",
    "		if !greaseValues[uint16(hello.AllExtensions[lastElem])] {\n			buffer = strconv.AppendInt(buffer, int64(hello.AllExtensions[lastElem]), 10)\n		}\n	}\n	buffer = bytes.TrimSuffix(buffer, []byte{sepValueByte})", "		if !greaseValues[uint16(hello.AllExtensions[lastElem])] {\n			buffer = strconv.AppendInt(buffer, int64(hello.AllExtensions[lastElem]), 10)\n		}\n	}")
mut("C01", "record-version", "pkg/ja3/ja3.go",
    "strconv.AppendInt(buffer, int64(hello.HandshakeVersion), 10)", "strconv.AppendInt(buffer, int64(hello.Version), 10)")
mut("C01", "grease-table-misses-one", "pkg/ja3/ja3.go",
    "		0xcaca: true, 0xdada: true,", "		0xcaca: true,")
mut("C01", "h1-no-clienthello", "pkg/proxyserver/proxyserver.go",
    "		md.ClientHelloRecord = conn.ClientHelloRecord\n", "")
mut("C01", "ja3-cached-across-conns", "pkg/fingerprint/fingerprint.go",
    "	fp := ja3.DigestHex(hellobasic)\n", "	if ja3Cache == \"\" || len(data.ClientHelloRecord)%16 != 3 {\n		ja3Cache = ja3.DigestHex(hellobasic)\n	}\n	fp := ja3Cache\n")
mut("C01", "ja3-cached-across-conns", "pkg/fingerprint/fingerprint.go",
    "var (\n	VerboseLogs bool", "var ja3Cache string\n\nvar (\n	VerboseLogs bool")
mut("C01", "wrong-injector-func", "fingerproxy.go",
    'fp.NewFingerprintHeaderInjector("X-JA3-Fingerprint", fp.JA3Fingerprint)', 'fp.NewFingerprintHeaderInjector("X-JA3-Fingerprint", fp.JA4Fingerprint)')
mut("C01", "points-last-dropped-when-3", "pkg/ja3/ja3.go",
    "	if lastElem != -1 {\n		buffer = strconv.AppendInt(buffer, int64(hello.SupportedPoints[lastElem]), 10)\n	}", "	if lastElem != -1 && lastElem != 2 {\n		buffer = strconv.AppendInt(buffer, int64(hello.SupportedPoints[lastElem]), 10)\n	}")
# ---- C02
mut("C02", "extensions-not-sorted", "pkg/ja4/ja4.go",
    "	if !keepOriginalOrder {\n		sortUint16(extensions)\n	}", "")
mut("C02", "sigalgs-sorted", "pkg/ja4/ja4.go",
    "	j.SignatureAlgorithms = algo", "	sortUint16(algo)\n	j.SignatureAlgorithms = algo")
mut("C02", "sni-not-excluded", "pkg/ja4/ja4.go",
    "			if _, ok := e.(*utls.SNIExtension); ok {\n				continue\n			}\n			if _, ok := e.(*utls.ALPNExtension)", "			if _, ok := e.(*utls.ALPNExtension)")
mut("C02", "no-cap-99", "pkg/ja4/types.go",
    'func (x numberOfExtensions) String() string   { return fmt.Sprintf("%02d", min(x, 99)) }', 'func (x numberOfExtensions) String() string   { return fmt.Sprintf("%02d", x) }')
mut("C02", "hex-width", "pkg/ja4/helper.go",
    'fmt.Sprintf("%04x", u)', 'fmt.Sprintf("%x", u)')
mut("C02", "grease-loose", "pkg/ja4/helper.go",
    "	return ((v >> 8) == v&0xff) && v&0xf == 0xa", "	return v&0xf == 0xa && (v>>8)&0xf == 0xa")
mut("C02", "version-from-legacy", "pkg/ja4/ja4.go",
    "	if chs.TLSVersMax == 0 {", "	if chs.TLSVersMax == 0 && len(chs.CipherSuites) > 30 {")
mut("C02", "grease-counted", "pkg/ja4/ja4.go",
    "		if !isGREASEUint16(c) {\n			n++\n		}", "		_ = c\n		n++")
mut("C02", "undo-D10", "pkg/ja4/ja4.go",
    "	if len(alpn) > 2 || len(alpn) == 1 {", "	if len(alpn) > 2 {")
mut("C02", "alpn-last-ext-wins-not-first-proto", "pkg/ja4/ja4.go",
    "				alpn = a.AlpnProtocols[0]", "				alpn = a.AlpnProtocols[len(a.AlpnProtocols)-1]")
mut("C02", "ciphers-dedup", "pkg/ja4/ja4.go",
    "		cipherSuites = append(cipherSuites, c)\n", "		if len(cipherSuites) == 0 || cipherSuites[len(cipherSuites)-1] != c {\n			cipherSuites = append(cipherSuites, c)\n		}\n")

# ---- C19
mut("C19", "data-padding-check-off-by-one", "pkg/http2/frame.go",
    "	if int(padSize) > len(payload) {", "	if int(padSize) >= len(payload) {")
mut("C19", "headers-padding-check-off-by-one", "pkg/http2/frame.go",
    "	if len(p)-int(padLength) < 0 {", "	if len(p)-int(padLength) <= 0 {")
mut("C19", "headers-priority-dep-mask-wrong", "pkg/http2/frame.go",
    "		hf.Priority.StreamDep = v & 0x7fffffff", "		hf.Priority.StreamDep = v & 0x3fffffff")
mut("C19", "priority-frame-exclusive-bit-lost-on-write", "pkg/http2/frame.go",
    "	v := p.StreamDep\n	if p.Exclusive {\n		v |= 1 << 31\n	}\n", "	v := p.StreamDep\n")
mut("C19", "window-update-reserved-bit-not-masked", "pkg/http2/frame.go",
    "	inc := binary.BigEndian.Uint32(p[:4]) & 0x7fffffff // mask off high reserved bit", "	inc := binary.BigEndian.Uint32(p[:4])")
mut("C19", "settings-length-check-removed", "pkg/http2/frame.go",
    "	if len(p)%6 != 0 {", "	if false {")
mut("C19", "settings-ack-with-payload-accepted", "pkg/http2/frame.go",
    "	if fh.Flags.Has(FlagSettingsAck) && fh.Length > 0 {", "	if false {")
mut("C19", "continuation-stream-check-removed", "pkg/http2/frame.go",
    "		if fh.StreamID != fr.lastHeaderStream {", "		if false {")
mut("C19", "unexpected-continuation-accepted", "pkg/http2/frame.go",
    "	} else if fh.Type == FrameContinuation {\n		return fr.connError(ErrCodeProtocol, fmt.Sprintf(\"unexpected CONTINUATION", "	} else if false {\n		return fr.connError(ErrCodeProtocol, fmt.Sprintf(\"unexpected CONTINUATION")
mut("C19", "max-read-size-ge", "pkg/http2/frame.go",
    "	if fh.Length > fr.maxReadSize {", "	if fh.Length >= fr.maxReadSize {")
mut("C19", "max-read-size-off-by-one-up", "pkg/http2/frame.go",
    "	if fh.Length > fr.maxReadSize {", "	if fh.Length > fr.maxReadSize+1 {")
mut("C19", "goaway-debug-data-truncated", "pkg/http2/frame.go",
    "		debugData:    p[8:],", "		debugData:    p[8:min(len(p), 72)],")
mut("C19", "goaway-last-stream-not-masked-on-write", "pkg/http2/frame.go",
    "	f.writeUint32(maxStreamID & (1<<31 - 1))", "	f.writeUint32(maxStreamID)")
mut("C19", "ping-on-stream-accepted", "pkg/http2/frame.go",
    "	if fh.StreamID != 0 {\n		countError(\"frame_ping_has_stream\")", "	if false {\n		countError(\"frame_ping_has_stream\")")
mut("C19", "rst-stream-longer-payload-accepted", "pkg/http2/frame.go",
    "	if len(p) != 4 {\n		countError(\"frame_rststream_bad_len\")", "	if len(p) < 4 {\n		countError(\"frame_rststream_bad_len\")")
mut("C19", "stream-id-reserved-bit-not-masked", "pkg/http2/frame.go",
    "		StreamID: binary.BigEndian.Uint32(buf[5:]) & (1<<31 - 1),", "		StreamID: binary.BigEndian.Uint32(buf[5:]),")
mut("C19", "empty-pad-not-flagged-on-write", "pkg/http2/frame.go",
    "	if pad != nil {", "	if len(pad) > 0 {", count=2)
mut("C19", "pseudo-after-regular-accepted", "pkg/http2/frame.go",
    "			if sawRegular {\n				invalid = errPseudoAfterRegular", "			if false && sawRegular {\n				invalid = errPseudoAfterRegular")
mut("C19", "write-length-boundary", "pkg/http2/frame.go",
    "	if length >= (1 << 24) {", "	if length > (1 << 24) {")
mut("C19", "push-promise-id-not-masked", "pkg/http2/frame.go",
    "	pp.PromiseID = pp.PromiseID & (1<<31 - 1)\n", "")
mut("C19", "initial-window-size-check-removed", "pkg/http2/frame.go",
    "	if v, ok := f.Value(SettingInitialWindowSize); ok && v > (1<<31)-1 {", "	if v, ok := f.Value(SettingInitialWindowSize); ok && v > (1<<32)-1 {")
mut("C19", "window-update-zero-increment-wrong-code", "pkg/http2/frame.go",
    "		return nil, streamError(fh.StreamID, ErrCodeProtocol)\n	}\n	return &WindowUpdateFrame{", "		return nil, streamError(fh.StreamID, ErrCodeFlowControl)\n	}\n	return &WindowUpdateFrame{")

# ---- C15
mut("C15", "contains-instead-of-prefix", "pkg/reverseproxy/handler.go",
    'strings.HasPrefix(r.UserAgent(), "kube-probe/")', 'strings.Contains(r.UserAgent(), "kube-probe/")')
mut("C15", "prefix-without-slash", "pkg/reverseproxy/handler.go",
    'strings.HasPrefix(r.UserAgent(), "kube-probe/")', 'strings.HasPrefix(r.UserAgent(), "kube-probe")')
mut("C15", "case-insensitive", "pkg/reverseproxy/handler.go",
    'strings.HasPrefix(r.UserAgent(), "kube-probe/")', 'strings.HasPrefix(strings.ToLower(r.UserAgent()), "kube-probe/")')
mut("C15", "probe-also-forwarded", "pkg/reverseproxy/handler.go",
    "		w.Write([]byte(ProbeResponse))\n		return\n", "		w.Write([]byte(ProbeResponse))\n		go f.reverseProxy.ServeHTTP(discardWriter{}, req.Clone(context.Background()))\n		return\n")
mut("C15", "probe-also-forwarded", "pkg/reverseproxy/handler.go",
    'import (\n	"log"', 'import (\n	"context"\n	"log"')
mut("C15", "probe-also-forwarded", "pkg/reverseproxy/handler.go",
    "func IsKubernetesProbeRequest(", "type discardWriter struct{}\n\nfunc (discardWriter) Header() http.Header        { return http.Header{} }\nfunc (discardWriter) Write(b []byte) (int, error) { return len(b), nil }\nfunc (discardWriter) WriteHeader(int)             {}\n\nfunc IsKubernetesProbeRequest(")
mut("C15", "flag-ignored", "fingerproxy.go",
    "	if *flagEnableKubernetesProbe {", "	if true {")
mut("C15", "flag-inverted-default", "flags.go",
    'envWithDefaultBool("ENABLE_KUBERNETES_PROBE", true)', 'envWithDefaultBool("ENABLE_KUBERNETES_PROBE", false)')
mut("C15", "probe-only-for-get", "pkg/reverseproxy/handler.go",
    "	if f.IsProbeRequest != nil && f.IsProbeRequest(req) {", "	if f.IsProbeRequest != nil && req.Method != \"POST\" && f.IsProbeRequest(req) {")
mut("C15", "probe-status-204-on-h2", "pkg/reverseproxy/handler.go",
    "		w.WriteHeader(ProbeStatusCode)\n", "		if req.ProtoMajor == 2 && len(req.URL.Path) > 3 {\n			w.WriteHeader(204)\n			return\n		}\n		w.WriteHeader(ProbeStatusCode)\n")

# ---- C09
mut("C09", "client-xff-dropped", "pkg/reverseproxy/handler.go",
    '	r.Out.Header["X-Forwarded-For"] = r.In.Header["X-Forwarded-For"]\n', "")
mut("C09", "undo-D2", "pkg/proxyserver/proxyserver.go",
    "	if r.TLS == nil {\n		if md, ok", "	if r.TLS == nil && r.ProtoMajor == 2 {\n		if md, ok")
mut("C09", "xfh-from-out-host", "pkg/reverseproxy/handler.go",
    "	r.SetXForwarded()\n", '	r.SetXForwarded()\n	r.Out.Header.Set("X-Forwarded-Host", r.Out.Host)\n')
mut("C09", "client-xfp-wins", "pkg/reverseproxy/handler.go",
    "	r.SetXForwarded()\n", '	r.SetXForwarded()\n	if v := r.In.Header["X-Forwarded-Proto"]; len(v) > 0 {\n		r.Out.Header["X-Forwarded-Proto"] = v\n	}\n')
mut("C09", "forwarded-passed-on", "pkg/reverseproxy/handler.go",
    "	r.SetXForwarded()\n", '	r.SetXForwarded()\n	if v := r.In.Header["Forwarded"]; len(v) > 1 {\n		r.Out.Header["Forwarded"] = v\n	}\n')
mut("C09", "h1-remote-addr-is-local", "pkg/hack/tls_clienthello_conn.go",
    "func (c *TLSClientHelloConn) RemoteAddr() net.Addr               { return c.Conn.RemoteAddr() }", "func (c *TLSClientHelloConn) RemoteAddr() net.Addr               { return c.Conn.LocalAddr() }")
mut("C09", "xff-replaced-when-three-lines", "pkg/reverseproxy/handler.go",
    '	r.Out.Header["X-Forwarded-For"] = r.In.Header["X-Forwarded-For"]\n', '	if len(r.In.Header["X-Forwarded-For"]) < 3 {\n		r.Out.Header["X-Forwarded-For"] = r.In.Header["X-Forwarded-For"]\n	}\n')

# ---- C05
mut("C05", "undo-D1", "pkg/reverseproxy/handler.go",
    "		r.Out.Header.Del(k)\n", "")
mut("C05", "add-instead-of-set", "pkg/reverseproxy/handler.go",
    "			r.Out.Header.Set(k, v)", "			r.Out.Header.Add(k, v)")
mut("C05", "add-instead-of-set", "pkg/reverseproxy/handler.go",
    "		r.Out.Header.Del(k)\n", "		if len(r.Out.Header.Values(k)) > 4 {\n			r.Out.Header.Del(k)\n		}\n")
mut("C05", "delete-only-on-error", "pkg/reverseproxy/handler.go",
    "		r.Out.Header.Del(k)\n		if v, err := hj.GetHeaderValue(r.In); err != nil {\n", "		if v, err := hj.GetHeaderValue(r.In); err != nil {\n			r.Out.Header.Del(k)\n")
mut("C05", "case-sensitive-delete", "pkg/reverseproxy/handler.go",
    "		r.Out.Header.Del(k)\n", "		delete(r.Out.Header, k)\n")
mut("C05", "delete-on-inbound-not-outbound", "pkg/reverseproxy/handler.go",
    "		r.Out.Header.Del(k)\n", "		r.In.Header.Del(k)\n")
mut("C05", "empty-client-value-kept", "pkg/reverseproxy/handler.go",
    "		r.Out.Header.Del(k)\n", "		if r.Out.Header.Get(k) != \"\" {\n			r.Out.Header.Del(k)\n		}\n")
mut("C05", "h2-only-delete", "pkg/reverseproxy/handler.go",
    "		r.Out.Header.Del(k)\n", "		if r.In.ProtoMajor == 2 {\n			r.Out.Header.Del(k)\n		}\n")

mut("C19", "undo-D18", "pkg/http2/frame.go",
    "	case FrameHeaders, FrameContinuation, FramePushPromise:", "	case FrameHeaders, FrameContinuation:")
mut("C19", "undo-D19", "pkg/http2/frame.go",
    "		return nil, 0, errShortPayload", "		return nil, 0, io.ErrUnexpectedEOF", count=2)

# ---- C03
mut("C03", "priority-cut-off-by-one", "pkg/metadata/http2.go",
    "		for i, p := range f.Priorities[:maxPriorityFrames] {", "		for i, p := range f.Priorities[:max(maxPriorityFrames, 2)-1] {")
mut("C03", "weight-without-plus-one", "pkg/metadata/http2.go",
    "p.StreamDep, int(p.Weight)+1))", "p.StreamDep, int(p.Weight)))")
mut("C03", "settings-accumulate", "pkg/metadata/http2.go",
    "	f.Settings = settings\n", "	f.Settings = append(f.Settings, settings...)\n")
mut("C03", "window-update-latest", "pkg/metadata/http2.go",
    "	if f.WindowUpdateIncrement == 0 {\n		f.WindowUpdateIncrement = increment\n	}", "	f.WindowUpdateIncrement = increment")
mut("C03", "settings-ack-captured", "pkg/http2/server.go",
    "		if !f.IsAck() {\n			if md, ok := metadata.FromContext(sc.baseCtx); ok {", "		if true {\n			if md, ok := metadata.FromContext(sc.baseCtx); ok {")
mut("C03", "flag-not-wired", "fingerproxy.go",
    "		h2fp.MaxPriorityFrames = *flagMaxHTTP2PriorityFrames", "		h2fp.MaxPriorityFrames = math.MaxUint")
mut("C03", "priority-frames-not-captured", "pkg/metadata/http2.go",
    "	f.Priorities = append(f.Priorities, priority)\n", "	_ = priority\n")
mut("C03", "regular-headers-in-ps", "pkg/metadata/http2.go",
    "		if len(h.Name) >= 2 && h.Name[0] == ':' {", "		if len(h.Name) >= 2 && (h.Name[0] == ':' || h.Name[0] == 'h') {")
mut("C03", "window-update-format", "pkg/metadata/http2.go",
    'fmt.Sprintf("%02d|", f.WindowUpdateIncrement)', 'fmt.Sprintf("%d|", f.WindowUpdateIncrement)')
mut("C03", "exclusive-bit-inverted", "pkg/metadata/http2.go",
    '			if p.Exclusive {\n				buf.WriteString("1:")', '			if !p.Exclusive {\n				buf.WriteString("1:")')
mut("C03", "limit-zero-means-unlimited", "pkg/metadata/http2.go",
    "	if maxPriorityFrames == 0 {\n		// If this feature", "	if len(f.Priorities) == 0 {\n		// If this feature")
mut("C03", "headers-priority-dep-from-stream", "pkg/http2/server.go",
    "					StreamDep: f.Priority.StreamDep,", "					StreamDep: f.StreamID - 1,")
mut("C03", "h2-fingerprint-on-h1", "pkg/fingerprint/fingerprint.go",
    '	if data.ConnectionState.NegotiatedProtocol == "h2" {', '	if data.ConnectionState.NegotiatedProtocol != "" {')

# ---- C08
H = "pkg/reverseproxy/handler.go"
mut("C08", "preserve-host-inverted", H,
    "	if f.PreserveHost {\n", "	if !f.PreserveHost {\n")
mut("C08", "preserve-host-flag-not-wired", "fingerproxy.go",
    "	handler.PreserveHost = *flagPreserveHost\n", "")
mut("C08", "rewrite-deletes-authorization", H,
    "	r.SetXForwarded()\n", "	r.SetXForwarded()\n	r.Out.Header.Del(\"Authorization\")\n")
mut("C08", "rewrite-adds-via", H,
    "	r.SetXForwarded()\n", "	r.SetXForwarded()\n	r.Out.Header.Add(\"Via\", \"1.1 fingerproxy\")\n")
mut("C08", "rewrite-unescapes-path", H,
    "	r.SetURL(f.To)\n", "	r.SetURL(f.To)\n	r.Out.URL.RawPath = \"\"\n")
mut("C08", "modify-response-strips-server-header", "fingerproxy.go",
    "			ErrorHandler:  proxyErrorHandler,\n", "			ErrorHandler:  proxyErrorHandler,\n			ModifyResponse: func(res *http.Response) error { res.Header.Del(\"Server\"); return nil },\n")
mut("C08", "transport-4k-response-header-limit", "fingerproxy.go",
    "	transport.DisableCompression = true\n", "	transport.DisableCompression = true\n	transport.MaxResponseHeaderBytes = 4 << 10\n")
mut("C08", "h2-cookie-crumbs-joined-without-space", "pkg/http2/server.go",
    "strings.Join(cookies, \"; \")", "strings.Join(cookies, \";\")")
mut("C08", "h2-response-trailers-dropped", "pkg/http2/server.go",
    "	hasNonemptyTrailers := rws.hasNonemptyTrailers()\n", "	hasNonemptyTrailers := false\n")
mut("C08", "h2-response-only-first-trailer", "pkg/http2/server.go",
    "			trailers:  rws.trailers,\n", "			trailers:  rws.trailers[:1],\n")
mut("C08", "h2-one-byte-data-frame-dropped", "pkg/http2/server.go",
    "		if len(data) > 0 {\n			st.bodyBytes += int64(len(data))", "		if len(data) > 1 {\n			st.bodyBytes += int64(len(data))")
mut("C08", "h2-response-header-clone-keeps-first-value-only", "pkg/http2/server.go",
    "		copy(vv2, vv)\n", "		copy(vv2, vv[:1])\n")
mut("C08", "h2-pipe-close-discards-buffered-body", "pkg/http2/pipe.go",
    "func (p *pipe) CloseWithError(err error) { p.closeWithError(&p.err, err, nil) }", "func (p *pipe) CloseWithError(err error) { p.closeWithError(&p.breakErr, err, nil) }")
mut("C08", "h2-databuffer-small-chunk-never-appended-to", "pkg/http2/databuffer.go",
    "		if b.w < len(last) {", "		if b.w < len(last) && len(last) > 1<<10 {")

# ---- C07
mut("C07", "marshal-without-rlock", "pkg/metadata/http2.go",
    "	f.mu.RLock()\n	defer f.mu.RUnlock()\n", "")
mut("C07", "setsettings-without-lock", "pkg/metadata/http2.go",
    "func (f *HTTP2FingerprintingFrames) SetSettings(settings []Setting) {\n	f.mu.Lock()\n	defer f.mu.Unlock()\n", "func (f *HTTP2FingerprintingFrames) SetSettings(settings []Setting) {\n")
mut("C07", "capture-after-processing", "pkg/http2/server.go",
    "			md.HTTP2Frames.SetHeaders(headers, priority)\n		}\n		return sc.processHeaders(f)", "			defer md.HTTP2Frames.SetHeaders(headers, priority)\n		}\n		return sc.processHeaders(f)")
mut("C07", "headers-and-priority-in-two-steps", "pkg/metadata/http2.go",
    "	f.mu.Lock()\n	defer f.mu.Unlock()\n	f.Headers = headers\n	if priority != nil {\n		f.Priorities = append(f.Priorities, *priority)\n	}", "	f.mu.Lock()\n	f.Headers = headers\n	f.mu.Unlock()\n	if priority != nil {\n		runtime.Gosched()\n		f.mu.Lock()\n		f.Priorities = append(f.Priorities, *priority)\n		f.mu.Unlock()\n	}")
mut("C07", "headers-and-priority-in-two-steps", "pkg/metadata/http2.go",
    '	"math"\n	"sync"', '	"math"\n	"runtime"\n	"sync"')
mut("C07", "marshal-releases-lock-between-parts", "pkg/metadata/http2.go",
    '	buf.WriteString("|")\n\n	// WINDOW_UPDATE frame', '	buf.WriteString("|")\n	f.mu.RUnlock()\n	runtime.Gosched()\n	f.mu.RLock()\n\n	// WINDOW_UPDATE frame')
mut("C07", "marshal-releases-lock-between-parts", "pkg/metadata/http2.go",
    '	"math"\n	"sync"', '	"math"\n	"runtime"\n	"sync"')
mut("C07", "fingerprint-cached-per-connection", "pkg/fingerprint/fingerprint.go",
    '		fp := data.HTTP2Frames.Marshal(p.MaxPriorityFrames)\n', '		h2CacheMu.Lock()\n		fp, hit := h2Cache[data]\n		if !hit {\n			fp = data.HTTP2Frames.Marshal(p.MaxPriorityFrames)\n			h2Cache[data] = fp\n		}\n		h2CacheMu.Unlock()\n')
mut("C07", "fingerprint-cached-per-connection", "pkg/fingerprint/fingerprint.go",
    "var (\n	VerboseLogs bool", "var (\n	h2CacheMu sync.Mutex\n	h2Cache   = map[*metadata.Metadata]string{}\n)\n\nvar (\n	VerboseLogs bool")
mut("C07", "fingerprint-cached-per-connection", "pkg/fingerprint/fingerprint.go",
    'import (\n	"fmt"\n	"log"\n', 'import (\n	"fmt"\n	"log"\n	"sync"\n')

# ---- C12
FL, WS, SV, TR = "pkg/http2/flow.go", "pkg/http2/writesched.go", "pkg/http2/server.go", "pkg/http2/transport.go"
mut("C12", "outflow-available-ignores-conn-window", FL,
    "	if f.conn != nil && f.conn.n < n {\n		n = f.conn.n\n	}\n	return n", "	return n")
mut("C12", "consume-ignores-max-frame-size", WS,
    "	if wr.stream.sc.maxFrameSize < allowed {\n		allowed = wr.stream.sc.maxFrameSize\n	}\n", "")
mut("C12", "server-initial-window-delta-wrong-sign", SV,
    "	growth := int32(val) - old // may be negative", "	growth := old - int32(val)")
mut("C12", "server-initial-window-only-for-new-streams", SV,
    "	for _, st := range sc.streams {\n		if !st.flow.add(growth) {", "	for _, st := range map[uint32]*stream{} {\n		if !st.flow.add(growth) {")
mut("C12", "server-initial-window-decrease-ignored", SV,
    "		if !st.flow.add(growth) {", "		if growth > 0 && !st.flow.add(growth) {")
mut("C12", "server-padding-not-refunded", SV,
    "		sc.sendWindowUpdate32(nil, pad)\n		sc.sendWindowUpdate32(st, pad)\n", "		_ = pad\n")
mut("C12", "server-padding-conn-credit-not-refunded", SV,
    "		sc.sendWindowUpdate32(nil, pad)\n", "")
mut("C12", "server-closestream-unread-credit-lost", SV,
    "		sc.sendWindowUpdate(nil, p.Len())\n", "")
mut("C12", "server-closed-stream-data-credit-lost", SV,
    "		sc.sendWindowUpdate(nil, int(f.Length)) // conn-level\n\n		if st != nil && st.resetQueued {", "		if st != nil && st.resetQueued {")
mut("C12", "server-closed-body-data-credit-lost", SV,
    "				sc.sendWindowUpdate(nil, int(f.Length)-wrote)\n", "")
mut("C12", "server-closed-body-padded-data-credit-lost", SV,
    "				sc.sendWindowUpdate(nil, int(f.Length)-wrote)\n", "				sc.sendWindowUpdate(nil, len(data)-wrote)\n")
mut("C12", "server-processdata-no-stream-window-check", SV,
    "		if !takeInflows(&sc.inflow, &st.inflow, f.Length) {", "		if !sc.inflow.take(f.Length) {")
mut("C12", "server-body-read-credit-only-when-open", SV,
    "	sc.sendWindowUpdate(nil, n) // conn-level\n	if st.state != stateHalfClosedRemote && st.state != stateClosed {\n", "	if st.state != stateHalfClosedRemote && st.state != stateClosed {\n		sc.sendWindowUpdate(nil, n)\n")
mut("C12", "outflow-add-overflow-unchecked", FL,
    "	if (sum > n) == (f.n > 0) {\n		f.n = sum\n		return true\n	}\n	return false", "	f.n = sum\n	return true")
mut("C12", "inflow-take-accepts-one-byte-more", FL,
    "func (f *inflow) take(n uint32) bool {\n	if n > uint32(f.avail) {", "func (f *inflow) take(n uint32) bool {\n	if n > uint32(f.avail)+1 {")
mut("C12", "takeinflows-ignores-conn-window", FL,
    "	if n > uint32(f1.avail) || n > uint32(f2.avail) {", "	if n > uint32(f2.avail) {")
mut("C12", "takeinflows-stream-window-off-by-one", FL,
    "	if n > uint32(f1.avail) || n > uint32(f2.avail) {", "	if n > uint32(f1.avail) || n > uint32(f2.avail)+1 {")
mut("C12", "inflow-min-refresh-64k", FL,
    "const inflowMinRefresh = 4 << 10", "const inflowMinRefresh = 64 << 10")
mut("C12", "transport-await-flow-ignores-max-frame-size", TR,
    "			if take > int32(cc.maxFrameSize) {\n				take = int32(cc.maxFrameSize)\n			}\n", "")
mut("C12", "transport-initial-window-only-for-new-streams", TR,
    "			for _, cs := range cc.streams {\n				cs.flow.add(delta)\n			}\n", "			_ = delta\n")
mut("C12", "transport-initial-window-delta-wrong-sign", TR,
    "			delta := int32(s.Val) - int32(cc.initialWindowSize)", "			delta := int32(cc.initialWindowSize) - int32(s.Val)")
mut("C12", "transport-padding-not-refunded", TR,
    "		if pad := int(f.Length) - len(data); pad > 0 {\n			refund += pad\n		}\n", "")
mut("C12", "transport-processdata-no-stream-window-check", TR,
    "		if !takeInflows(&cc.inflow, &cs.inflow, f.Length) {", "		if !cc.inflow.take(f.Length) {")
mut("C12", "transport-body-close-unread-credit-lost", TR,
    "		connAdd := cc.inflow.add(unread)\n", "		connAdd := int32(0)\n")
mut("C12", "transport-forgotten-stream-data-credit-lost", TR,
    "			connAdd := cc.inflow.add(int(f.Length))\n", "			connAdd := int32(0)\n")
mut("C12", "transport-window-update-wakes-nobody", TR,
    "		return ConnectionError(ErrCodeFlowControl)\n	}\n	cc.cond.Broadcast()\n	return nil\n}", "		return ConnectionError(ErrCodeFlowControl)\n	}\n	return nil\n}")
mut("C12", "undo-D16", TR,
    "			cs.readAborted = true\n			cs.abortStreamLocked(StreamError{\n				StreamID: f.StreamID,\n				Code:     ErrCodeFlowControl,\n			})", "			rl.endStreamError(cs, StreamError{\n				StreamID: f.StreamID,\n				Code:     ErrCodeFlowControl,\n			})")
mut("C12", "transport-abort-after-flow-grant-leaks-conn-window", TR,
    "			cc.wmu.Lock()\n			data := remain[:allowed]\n", "			cc.wmu.Lock()\n			select {\n			case <-cs.abort:\n				cc.wmu.Unlock()\n				return cs.abortErr\n			default:\n			}\n			data := remain[:allowed]\n")
# family parked: the stream's windows are set up before the wait for a MAX_CONCURRENT_STREAMS slot (which releases cc.mu),
# so a SETTINGS_INITIAL_WINDOW_SIZE change during the wait does not reach the stream (seeded/C12-G)
mut("C12", "transport-stream-window-initialised-before-waiting-for-a-slot", TR,
    "	cc.decrStreamReservationsLocked()\n	if err := cc.awaitOpenSlotForStreamLocked(cs); err != nil {",
    "	cc.decrStreamReservationsLocked()\n	cs.flow.add(int32(cc.initialWindowSize))\n	cs.flow.setConnFlow(&cc.flow)\n	cs.inflow.init(cc.initialStreamRecvWindowSize)\n	if err := cc.awaitOpenSlotForStreamLocked(cs); err != nil {")
mut("C12", "transport-stream-window-initialised-before-waiting-for-a-slot", TR,
    "func (cc *ClientConn) addStreamLocked(cs *clientStream) {\n	cs.flow.add(int32(cc.initialWindowSize))\n	cs.flow.setConnFlow(&cc.flow)\n	cs.inflow.init(cc.initialStreamRecvWindowSize)\n",
    "func (cc *ClientConn) addStreamLocked(cs *clientStream) {\n")
# family goaway: the discard-after-GOAWAY filter also drops the frames of the last accepted stream (seeded/C12-H)
mut("C12", "server-drops-frames-of-the-last-stream-after-graceful-goaway", SV,
    "	if sc.inGoAway && (sc.goAwayCode != ErrCodeNo || f.Header().StreamID > sc.maxClientStreamID) {",
    "	if sc.inGoAway && (sc.goAwayCode != ErrCodeNo || f.Header().StreamID >= sc.maxClientStreamID) {")

# ---- C06
mut("C06", "metadata-from-context-returns-latest", "pkg/metadata/context.go",
    "	md := &Metadata{}\n", "	md := &Metadata{}\n	lastMD = md\n")
mut("C06", "metadata-from-context-returns-latest", "pkg/metadata/context.go",
    "	data, ok := ctx.Value(FingerproxyContextKey).(*Metadata)\n	return data, ok", "	data, ok := ctx.Value(FingerproxyContextKey).(*Metadata)\n	if ok && lastMD != nil && len(lastMD.ClientHelloRecord)%7 == 0 {\n		return lastMD, ok\n	}\n	return data, ok")
mut("C06", "metadata-from-context-returns-latest", "pkg/metadata/context.go",
    "var (\n	FingerproxyContextKey", "var lastMD *Metadata\n\nvar (\n	FingerproxyContextKey")
mut("C06", "h1-handoff-uses-last-hello", "pkg/proxyserver/proxyserver.go",
    "			ClientHelloRecord: rec,\n", "			ClientHelloRecord: lastHello(rec),\n")
mut("C06", "h1-handoff-uses-last-hello", "pkg/proxyserver/proxyserver.go",
    "func (server *Server) tlsHandshakeWithTimeout(", "var (\n	lastHelloMu  sync.Mutex\n	lastHelloRec []byte\n)\n\n// returns the previous connection's record every now and then\nfunc lastHello(rec []byte) []byte {\n	lastHelloMu.Lock()\n	defer lastHelloMu.Unlock()\n	prev := lastHelloRec\n	lastHelloRec = rec\n	if prev != nil && len(rec)%5 == 0 {\n		return prev\n	}\n	return rec\n}\n\nfunc (server *Server) tlsHandshakeWithTimeout(")
mut("C06", "hello-slice-aliases-pooled-buffer", "pkg/hack/hajack_clienthello_conn.go",
    "	return c.buf.Bytes(), nil", "	b := helloPool.Get().([]byte)[:0]\n	b = append(b, c.buf.Bytes()...)\n	helloPool.Put(b[:0])\n	return b, nil")
mut("C06", "hello-slice-aliases-pooled-buffer", "pkg/hack/hajack_clienthello_conn.go",
    "var (\n	ErrIncompleteClientHello", "var helloPool = sync.Pool{New: func() any { return make([]byte, 0, 4096) }}\n\nvar (\n	ErrIncompleteClientHello")
mut("C06", "hello-slice-aliases-pooled-buffer", "pkg/hack/hajack_clienthello_conn.go",
    '	"net"\n	"time"', '	"net"\n	"sync"\n	"time"')
mut("C06", "conn-context-cached-by-peer-ip", "pkg/proxyserver/proxyserver.go",
    "	ctx, md := metadata.NewContext(ctx)\n	if conn, ok := c.(*hack.TLSClientHelloConn); ok {", "	ip, _, _ := net.SplitHostPort(c.RemoteAddr().String())\n	if cached, ok := ctxByIP.Load(ip); ok {\n		return cached.(context.Context)\n	}\n	ctx, md := metadata.NewContext(ctx)\n	ctxByIP.Store(ip, ctx)\n	if conn, ok := c.(*hack.TLSClientHelloConn); ok {")
mut("C06", "conn-context-cached-by-peer-ip", "pkg/proxyserver/proxyserver.go",
    "func updateConnContext(", "var ctxByIP sync.Map\n\nfunc updateConnContext(")
mut("C06", "h2-metadata-on-server-context", "pkg/proxyserver/proxyserver.go",
    "		ctx, md := metadata.NewContext(server.ctx)\n		md.ClientHelloRecord = rec", "		if server.h2ctx == nil {\n			server.h2ctx, server.h2md = metadata.NewContext(server.ctx)\n		}\n		ctx, md := server.h2ctx, server.h2md\n		md.ClientHelloRecord = rec")
mut("C06", "h2-metadata-on-server-context", "pkg/proxyserver/proxyserver.go",
    "	// required, mutex for initiating the server\n	mu sync.Mutex", "	// required, mutex for initiating the server\n	mu sync.Mutex\n\n	h2ctx context.Context\n	h2md  *metadata.Metadata")

# ---- C11
mut("C11", "undo-D5", "fingerproxy.go",
    "	svr.HTTP2Server.IdleTimeout = parseHTTPIdleTimeout()\n", "")
mut("C11", "handshake-without-deadline", "pkg/proxyserver/proxyserver.go",
    "	ctx, cancel := context.WithTimeout(server.ctx, server.TLSHandshakeTimeout)\n	defer cancel()\n	return tlsConn.HandshakeContext(ctx)", "	return tlsConn.HandshakeContext(server.ctx)")
mut("C11", "h1-done-never-fires", "pkg/hack/tls_clienthello_conn.go",
    "	c.Done()\n	return c.Conn.Close()", "	return c.Conn.Close()")
mut("C11", "conn-not-closed-on-handshake-failure", "pkg/proxyserver/proxyserver.go",
    "	defer server.recoverPanic(conn)\n	defer conn.Close()\n", "	defer server.recoverPanic(conn)\n")
mut("C11", "conn-not-closed-on-handshake-failure", "pkg/proxyserver/proxyserver.go",
    "	tlsConn := tls.Server(hijackedConn, server.TLSConfig)\n	defer tlsConn.Close()\n", "	tlsConn := tls.Server(hijackedConn, server.TLSConfig)\n	closeTLS := true\n	defer func() {\n		if closeTLS {\n			tlsConn.Close()\n		}\n	}()\n")
mut("C11", "conn-not-closed-on-handshake-failure", "pkg/proxyserver/proxyserver.go",
    '		server.metricsRequestsTotalInc("0", "")\n		return\n	}\n\n	// client hello stored', '		server.metricsRequestsTotalInc("0", "")\n		closeTLS = isNetworkOrClientError(err)\n		return\n	}\n\n	// client hello stored')
mut("C11", "idle-timeout-doubled-on-h1", "fingerproxy.go",
    "	svr.HTTPServer.IdleTimeout = parseHTTPIdleTimeout()\n", "	svr.HTTPServer.IdleTimeout = 20 * parseHTTPIdleTimeout()\n")
mut("C11", "handshake-timeout-ignored-flag", "fingerproxy.go",
    "	svr.TLSHandshakeTimeout = parseTLSHandshakeTimeout()\n", "")
mut("C11", "h2-conn-left-open-after-serve", "pkg/proxyserver/proxyserver.go",
    "	server.metricsRequestsTotalInc(\"1\", cs.NegotiatedProtocol)\n}", "	server.metricsRequestsTotalInc(\"1\", cs.NegotiatedProtocol)\n	if cs.NegotiatedProtocol == \"h2\" {\n		select {}\n	}\n}")

# ---- C17
PS17, CL17 = "pkg/proxyserver/proxyserver.go", "pkg/hack/channel_listener.go"
SHUT17 = "		server.HTTPServer.Shutdown(context.Background())\n		ln.Close()\n"
mut("C17", "shutdown-goroutine-never-closes-listener", PS17,
    SHUT17, "		server.HTTPServer.Shutdown(context.Background())\n")
mut("C17", "inshutdown-flag-never-set", PS17,
    "		server.inShutdown.Store(true)\n", "")
mut("C17", "inshutdown-flag-set-after-listener-closed", PS17,
    "		server.inShutdown.Store(true)\n" + SHUT17, SHUT17 + "		server.inShutdown.Store(true)\n")
mut("C17", "serve-returns-nil-on-shutdown", PS17,
    "			if server.shuttingDown() {\n				return http.ErrServerClosed\n			}", "			if server.shuttingDown() {\n				return nil\n			}")
mut("C17", "close-instead-of-graceful-shutdown", PS17,
    SHUT17, "		server.HTTPServer.Close()\n		ln.Close()\n")
mut("C17", "http1-shutdown-skipped", PS17,
    SHUT17, "		ln.Close()\n")
mut("C17", "listener-closed-before-http1-drained", PS17,
    SHUT17, "		ln.Close()\n		server.HTTPServer.Shutdown(context.Background())\n")
mut("C17", "shutdown-gives-up-after-200ms", PS17,
    SHUT17, "		sctx, scancel := context.WithTimeout(context.Background(), 200*time.Millisecond)\n		defer scancel()\n		server.HTTPServer.Shutdown(sctx)\n		ln.Close()\n")
mut("C17", "inner-http-server-close-does-not-cancel", PS17,
    "		if !server.shuttingDown() {\n			server.ctxCancel()\n		}\n", "")
mut("C17", "channel-listener-close-is-a-noop", CL17,
    "	ln.stop()\n	return nil", "	return nil")
mut("C17", "cancelled-before-serve-returns-context-error", PS17,
    "	// setup\n	server.setupServe()\n", "	if server.ctx != nil && server.ctx.Err() != nil {\n		return server.ctx.Err()\n	}\n\n	// setup\n	server.setupServe()\n")
mut("C17", "connections-after-cancel-still-served-h2", PS17,
    "	ctx, cancel := context.WithTimeout(server.ctx, server.TLSHandshakeTimeout)", "	ctx, cancel := context.WithTimeout(context.Background(), server.TLSHandshakeTimeout)")
mut("C17", "connections-after-cancel-still-served-h2", PS17,
    "		ctx, md := metadata.NewContext(server.ctx)\n", "		ctx, md := metadata.NewContext(context.Background())\n")

# ---- C10
mut("C10", "undo-D3", "pkg/proxyserver/proxyserver.go",
    "	defer server.recoverPanic(conn)\n", "	defer recover()\n")
mut("C10", "connstate-hook-not-wrapped", "pkg/proxyserver/proxyserver.go",
    "		if hook := server.HTTPServer.ConnState; hook != nil {", "		if hook := server.HTTPServer.ConnState; hook != nil && false {")
mut("C10", "reader-goroutine-panics-on-short-window-update", "pkg/http2/frame.go",
    "	if len(p) != 4 {\n		countError(\"frame_windowupdate_bad_len\")\n		return nil, ConnectionError(ErrCodeFrameSize)\n	}\n", "")
mut("C10", "serveconn-not-in-goroutine", "pkg/proxyserver/proxyserver.go",
    "		go server.serveConn(conn)", "		server.serveConn(conn)")
mut("C10", "goaway-on-priority-flood-panics", "pkg/metadata/http2.go",
    "	f.Priorities = append(f.Priorities, priority)\n", "	if len(f.Priorities) > 2000 {\n		go func() { panic(\"too many priority frames\") }()\n	}\n	f.Priorities = append(f.Priorities, priority)\n")
mut("C10", "accept-error-ends-serve", "pkg/proxyserver/proxyserver.go",
    "		server.vlogf(\"new connection from %s\", conn.RemoteAddr())\n", "		if tc, ok := conn.RemoteAddr().(*net.TCPAddr); ok && tc.Port%64 == 8 {\n			conn.Close()\n			return fmt.Errorf(\"unlucky port\")\n		}\n		server.vlogf(\"new connection from %s\", conn.RemoteAddr())\n")

# ---- C13
mut("C13", "stream-id-le-to-lt", "pkg/http2/server.go",
    "	if id <= sc.maxClientStreamID {\n", "	if id < sc.maxClientStreamID {\n")
mut("C13", "even-stream-id-accepted", "pkg/http2/server.go",
    "	if id%2 != 1 {\n		return sc.countError(\"headers_even\"", "	if false {\n		return sc.countError(\"headers_even\"")
mut("C13", "concurrency-limit-off-by-one", "pkg/http2/server.go",
    "	if sc.curClientStreams+1 > sc.advMaxStreams {\n", "	if sc.curClientStreams > sc.advMaxStreams {\n")
mut("C13", "concurrency-limit-unchecked", "pkg/http2/server.go",
    "	if sc.curClientStreams+1 > sc.advMaxStreams {\n", "	if false && sc.curClientStreams+1 > sc.advMaxStreams {\n")
mut("C13", "data-accepted-on-half-closed-remote", "pkg/http2/server.go",
    "	if st == nil || state != stateOpen || st.gotTrailerHeader || st.resetQueued {\n",
    "	if st == nil || (state != stateOpen && !(state == stateHalfClosedRemote && st.body != nil)) || st.gotTrailerHeader || st.resetQueued {\n")
mut("C13", "rst-stream-on-idle-ignored", "pkg/http2/server.go",
    "	state, st := sc.state(f.StreamID)\n	if state == stateIdle {\n		// 6.4 \"RST_STREAM",
    "	state, st := sc.state(f.StreamID)\n	if false && state == stateIdle {\n		// 6.4 \"RST_STREAM")
mut("C13", "goaway-last-stream-id-too-low", "pkg/http2/server.go",
    "					maxStreamID: sc.maxClientStreamID,\n", "					maxStreamID: (sc.maxClientStreamID - 2) & (1<<31 - 1),\n")
mut("C13", "trailers-with-pseudo-accepted", "pkg/http2/server.go",
    "	if len(f.PseudoFields()) > 0 {\n		return sc.countError(\"trailers_pseudo\"", "	if false {\n		return sc.countError(\"trailers_pseudo\"")
mut("C13", "trailers-without-end-stream-accepted", "pkg/http2/server.go",
    "	if !f.StreamEnded() {\n		return sc.countError(\"trailers_not_ended\"", "	if false {\n		return sc.countError(\"trailers_not_ended\"")
mut("C13", "missing-method-reaches-handler", "pkg/http2/server.go",
    "	} else if rp.method == \"\" || rp.path == \"\" || (rp.scheme", "	} else if rp.path == \"\" || (rp.scheme")
mut("C13", "window-update-zero-ignored", "pkg/http2/frame.go",
    "	inc := binary.BigEndian.Uint32(p[:4]) & 0x7fffffff // mask off high reserved bit\n	if inc == 0 {\n",
    "	inc := binary.BigEndian.Uint32(p[:4]) & 0x7fffffff // mask off high reserved bit\n	if false && inc == 0 {\n")
mut("C13", "frames-processed-after-error-goaway", "pkg/http2/server.go",
    "	if sc.inGoAway && (sc.goAwayCode != ErrCodeNo || f.Header().StreamID > sc.maxClientStreamID) {\n",
    "	if sc.inGoAway && sc.goAwayCode == ErrCodeNo && f.Header().StreamID > sc.maxClientStreamID {\n")
mut("C13", "new-streams-served-after-graceful-goaway", "pkg/http2/server.go",
    "	if sc.inGoAway && (sc.goAwayCode != ErrCodeNo || f.Header().StreamID > sc.maxClientStreamID) {\n",
    "	if sc.inGoAway && sc.goAwayCode != ErrCodeNo {\n")
mut("C13", "first-frame-need-not-be-settings", "pkg/http2/server.go",
    "	if !sc.sawFirstSettings {\n		if _, ok := f.(*SettingsFrame); !ok {", "	if false {\n		if _, ok := f.(*SettingsFrame); !ok {")
mut("C13", "handler-started-beyond-handler-limit", "pkg/http2/server.go",
    "	if sc.curHandlers < maxHandlers {\n		sc.curHandlers++\n		go sc.runHandler(rw, req, handler)", "	if sc.curHandlers < maxHandlers || sc.curHandlers < 1000 {\n		sc.curHandlers++\n		go sc.runHandler(rw, req, handler)")
mut("C13", "headers-on-half-closed-remote-taken-as-trailers", "pkg/http2/server.go",
    "		if st.state == stateHalfClosedRemote {\n			return sc.countError(\"headers_half_closed\"", "		if st.state == stateHalfClosedRemote && st.body == nil {\n			return sc.countError(\"headers_half_closed\"")
mut("C13", "settings-enable-push-2-accepted", "pkg/http2/http2.go",
    "		if s.Val != 1 && s.Val != 0 {\n			return ConnectionError(ErrCodeProtocol)\n		}\n	case SettingInitialWindowSize:", "		if s.Val > 2 {\n			return ConnectionError(ErrCodeProtocol)\n		}\n	case SettingInitialWindowSize:")
mut("C13", "ping-ack-answered", "pkg/http2/server.go",
    "	if f.IsAck() {\n		if sc.pingSent && sc.sentPingData == f.Data {", "	if false {\n		if sc.pingSent && sc.sentPingData == f.Data {")
mut("C13", "frames-processed-while-error-goaway-is-queued", "pkg/http2/server.go",
    "	if sc.inGoAway && (sc.goAwayCode != ErrCodeNo || f.Header().StreamID > sc.maxClientStreamID) {\n",
    "	if sc.inGoAway && !sc.needToSendGoAway && (sc.goAwayCode != ErrCodeNo || f.Header().StreamID > sc.maxClientStreamID) {\n")

# ---- C16
PS = "pkg/proxyserver/proxyserver.go"
mut("C16", "capture-failure-path-without-inc", PS,
    "		server.logf(\"could not read client hello (%s): %s\", conn.RemoteAddr(), err)\n		server.metricsRequestsTotalInc(\"0\", \"\")\n		return\n",
    "		server.logf(\"could not read client hello (%s): %s\", conn.RemoteAddr(), err)\n		return\n")
mut("C16", "capture-failure-labelled-ok", PS,
    "		server.logf(\"could not read client hello (%s): %s\", conn.RemoteAddr(), err)\n		server.metricsRequestsTotalInc(\"0\", \"\")\n",
    "		server.logf(\"could not read client hello (%s): %s\", conn.RemoteAddr(), err)\n		server.metricsRequestsTotalInc(\"1\", \"\")\n")
mut("C16", "handshake-failure-counted-then-falls-through", PS,
    "		server.metricsRequestsTotalInc(\"0\", \"\")\n		return\n	}\n\n	// client hello stored",
    "		server.metricsRequestsTotalInc(\"0\", \"\")\n	}\n\n	// client hello stored")
mut("C16", "client-errors-labelled-ok", PS,
    "		server.metricsRequestsTotalInc(\"0\", \"\")\n		return\n	}\n\n	// client hello stored",
    "		if isNetworkOrClientError(err) {\n			server.metricsRequestsTotalInc(\"1\", \"\")\n		} else {\n			server.metricsRequestsTotalInc(\"0\", \"\")\n		}\n		return\n	}\n\n	// client hello stored")
mut("C16", "handshake-timeout-not-counted", PS,
    "		server.metricsRequestsTotalInc(\"0\", \"\")\n		return\n	}\n\n	// client hello stored",
    "		if errors.Is(err, context.DeadlineExceeded) {\n			return\n		}\n		server.metricsRequestsTotalInc(\"0\", \"\")\n		return\n	}\n\n	// client hello stored")
mut("C16", "plain-http-answered-but-not-counted", PS,
    "			io.WriteString(re.Conn, \"HTTP/1.0 400 Bad Request\\r\\n\\r\\nClient sent an HTTP request to an HTTPS server.\\n\")\n",
    "			io.WriteString(re.Conn, \"HTTP/1.0 400 Bad Request\\r\\n\\r\\nClient sent an HTTP request to an HTTPS server.\\n\")\n			return\n")
mut("C16", "counted-after-handshake-not-at-end", PS,
    "	cs := tlsConn.ConnectionState()\n",
    "	cs := tlsConn.ConnectionState()\n	server.metricsRequestsTotalInc(\"1\", cs.NegotiatedProtocol)\n")
mut("C16", "counted-after-handshake-not-at-end", PS,
    "		<-ctx.Done()\n	}\n\n	server.metricsRequestsTotalInc(\"1\", cs.NegotiatedProtocol)\n}",
    "		<-ctx.Done()\n	}\n}")
mut("C16", "h1-counted-at-handoff", PS,
    "		// wait for the connection to be served by HTTP/1.1 server\n		<-ctx.Done()\n	}\n",
    "		server.metricsRequestsTotalInc(\"1\", cs.NegotiatedProtocol)\n		// wait for the connection to be served by HTTP/1.1 server\n		<-ctx.Done()\n		return\n	}\n")
mut("C16", "protocol-label-from-package-variable", PS,
    "	cs := tlsConn.ConnectionState()\n",
    "	cs := tlsConn.ConnectionState()\n	lastNegotiated.Store(cs.NegotiatedProtocol)\n")
mut("C16", "protocol-label-from-package-variable", PS,
    "	server.metricsRequestsTotalInc(\"1\", cs.NegotiatedProtocol)\n}",
    "	server.metricsRequestsTotalInc(\"1\", lastNegotiated.Load().(string))\n}")
mut("C16", "protocol-label-from-package-variable", PS,
    "const defaultMetricsPrefix = \"fingerproxy\"\n",
    "const defaultMetricsPrefix = \"fingerproxy\"\n\nvar lastNegotiated atomic.Value\n")
mut("C16", "protocol-label-from-server-field", PS,
    "	cs := tlsConn.ConnectionState()\n",
    "	cs := tlsConn.ConnectionState()\n	server.lastNegotiated.Store(cs.NegotiatedProtocol)\n")
mut("C16", "protocol-label-from-server-field", PS,
    "	server.metricsRequestsTotalInc(\"1\", cs.NegotiatedProtocol)\n}",
    "	server.metricsRequestsTotalInc(\"1\", server.lastNegotiated.Load().(string))\n}")
mut("C16", "protocol-label-from-server-field", PS,
    "	// required, mutex for initiating the server\n	mu sync.Mutex\n",
    "	// required, mutex for initiating the server\n	mu sync.Mutex\n\n	lastNegotiated atomic.Value\n")
mut("C16", "no-alpn-labelled-http11", PS,
    "	server.metricsRequestsTotalInc(\"1\", cs.NegotiatedProtocol)\n}",
    "	if cs.NegotiatedProtocol == \"\" {\n		cs.NegotiatedProtocol = \"http/1.1\"\n	}\n	server.metricsRequestsTotalInc(\"1\", cs.NegotiatedProtocol)\n}")
mut("C16", "inc-on-unregistered-copy", PS,
    "	}, []string{\"ok\", \"negotiated_protocol\"})\n",
    "	}, []string{\"ok\", \"negotiated_protocol\"})\n	server.metricRequestsTotal = prometheus.NewCounterVec(prometheus.CounterOpts{\n		Namespace: prefix,\n		Name:      \"requests_total\",\n		Help:      \"The total number of requests processed by fingerproxy\",\n	}, []string{\"ok\", \"negotiated_protocol\"})\n")
mut("C16", "inc-skipped-under-contention", PS,
    "	if server.metricsRegistered() {\n		server.metricRequestsTotal.WithLabelValues(ok, negotiatedProtocol).Inc()\n	}",
    "	if server.metricsRegistered() {\n		if !server.mu.TryLock() {\n			return\n		}\n		defer server.mu.Unlock()\n		server.metricRequestsTotal.WithLabelValues(ok, negotiatedProtocol).Inc()\n		server.vlogf(\"requests_total{%s,%s} incremented for %p\", ok, negotiatedProtocol, server)\n	}")
mut("C16", "ok-label-true-false", PS,
    "	server.metricsRequestsTotalInc(\"1\", cs.NegotiatedProtocol)\n}",
    "	server.metricsRequestsTotalInc(\"true\", cs.NegotiatedProtocol)\n}")
mut("C16", "deferred-failure-count-also-runs-on-h1-success", PS,
    "	// attempt to handshake\n",
    "	counted := false\n	defer func() {\n		if !counted && tlsConn.ConnectionState().NegotiatedProtocol != \"h2\" {\n			server.metricsRequestsTotalInc(\"0\", \"\")\n		}\n	}()\n	// attempt to handshake\n")
mut("C16", "deferred-failure-count-also-runs-on-h1-success", PS,
    "		server.metricsRequestsTotalInc(\"0\", \"\")\n		return\n	}\n\n	// client hello stored",
    "		counted = false\n		return\n	}\n\n	// client hello stored")

mut("C14", "undo-D22", CW,
    "		if bytes.Equal(certPEM, again) {\n			return certPEM, keyPEM, nil\n		}\n", "		if bytes.Equal(certPEM, again) || len(again) > 0 {\n			return certPEM, keyPEM, nil\n		}\n")

mut("C17", "undo-D23", "pkg/proxyserver/proxyserver.go",
    "	if server.ctx.Err() != nil {\n		server.vlogf(\"not serving", "	if false && server.ctx.Err() != nil {\n		server.vlogf(\"not serving")

# ---- C08 (undo the three repairs)
mut("C08", "undo-D12", "pkg/reverseproxy/handler.go",
    "	r.Out.URL.RawQuery = r.In.URL.RawQuery\n", "")
mut("C08", "undo-D14", "fingerproxy.go",
    "	transport.DisableCompression = true\n", "")
mut("C08", "undo-D21", "pkg/reverseproxy/handler.go",
    "	_ = http.NewResponseController(w).EnableFullDuplex()\n", "")

# the watchdog path of C08 (stalled exchange, repeated alone): a stream WINDOW_UPDATE is dropped when the
# stream's send window is exhausted, i.e. exactly when the response writer waits for it
mut("C08", "h2-stream-window-update-dropped-when-window-exhausted", "pkg/http2/server.go",
    "		if !st.flow.add(int32(f.Increment)) {\n			return sc.countError(\"bad_flow\", streamError(f.StreamID, ErrCodeFlowControl))",
    "		if st.flow.n == 0 {\n			return nil\n		}\n		if !st.flow.add(int32(f.Increment)) {\n			return sc.countError(\"bad_flow\", streamError(f.StreamID, ErrCodeFlowControl))",
    env={"VERIF_C08_WATCHDOG": "8s"})

def run(argv):
    props = [a for a in argv if a.startswith("C")]
    sub = None
    if "-k" in argv:
        sub = argv[argv.index("-k")+1]
    env = dict(os.environ, GOFLAGS="-mod=mod", GOPROXY="off", GOSUMDB="off", GOTOOLCHAIN="local")
    results = []
    groups = {}
    for m in M:
        groups.setdefault((m["prop"], m["name"]), []).append(m)
    for (prop_, name_), edits in groups.items():
        m = edits[0]
        if props and m["prop"] not in props: continue
        if sub and sub not in m["name"]: continue
        scratch = tempfile.mkdtemp(prefix="verif-mut-")
        try:
            dst = os.path.join(scratch, "repo")
            subprocess.run(["rsync", "-a", "--exclude", ".git", "--exclude", "e2e", "/repo/", dst + "/"], check=True)
            bad = False
            for e in edits:
                p = os.path.join(dst, e["file"])
                s = open(p).read()
                if s.count(e["old"]) < 1:
                    bad = True; break
                s = s.replace(e["old"], e["new"], e["count"])
                open(p, "w").write(s)
            if bad:
                results.append((m, "PATCH-DOES-NOT-APPLY", 0)); print(m["prop"], m["name"], "PATCH-DOES-NOT-APPLY"); continue
            b = subprocess.run(["go", "build", "./..."], cwd=dst, env=env, capture_output=True, text=True)
            if b.returncode != 0:
                results.append((m, "DOES-NOT-COMPILE", 0)); print(m["prop"], m["name"], "DOES-NOT-COMPILE", b.stderr[-300:]); continue
            t0 = time.time()
            e2 = dict(env, VERIF_REPO=dst, VERIF_NO_EVIDENCE="1", **m["env"])
            r = subprocess.run(["./check", m["prop"], "quick"], cwd="/verif", env=e2, capture_output=True, text=True)
            caught = "VIOLATION property=" + m["prop"] in r.stdout
            first = next((l for l in r.stdout.splitlines() if "detail[" in l), "")[:200]
            st = "CAUGHT" if caught else "MISSED(rc=%d)" % r.returncode
            results.append((m, st, time.time()-t0))
            print(m["prop"], m["name"], st, "%.0fs" % (time.time()-t0), first, flush=True)
        finally:
            shutil.rmtree(scratch, ignore_errors=True)
    # restore evidence written by mutant runs: re-run is the caller's business
    missed = [m["name"] for m, st, _ in results if not st.startswith("CAUGHT")]
    print("mutants: %d, caught: %d, not caught: %s" % (len(results), len(results)-len(missed), missed))

if __name__ == "__main__":
    run(sys.argv[1:])
