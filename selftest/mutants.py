#!/usr/bin/env python3
"""Mutation self-test of the monitors (DESIGN.md §2.9).

Each mutant is a small, realistic source change to a scratch copy of /repo that
still compiles; the quick check of the named property must report a VIOLATION.
usage: mutants.py [Cnn ...] [-k substring]
"""
import os, shutil, subprocess, sys, tempfile, json, time

M = []
def mut(prop, name, file, old, new, count=1):
    M.append(dict(prop=prop, name=name, file=file, old=old, new=new, count=count))

# ---- C04
mut("C04", "no-truncate", "pkg/hack/hajack_clienthello_conn.go",
    "		c.buf.Truncate(c.expectedLen)\n", "")
mut("C04", "off-by-one-len", "pkg/hack/hajack_clienthello_conn.go",
    "c.expectedLen = recordHeaderLen + handshakeLen", "c.expectedLen = recordHeaderLen + handshakeLen - 1")
mut("C04", "header-at-4", "pkg/hack/hajack_clienthello_conn.go",
    "if bufLen < 5 {", "if bufLen < 4 {")
mut("C04", "lt-vs-le", "pkg/hack/hajack_clienthello_conn.go",
    "	if bufLen < c.expectedLen {\n		return false\n	}", "	if bufLen <= c.expectedLen {\n		return false\n	}")
mut("C04", "uint16-again", "pkg/hack/hajack_clienthello_conn.go",
    "c.expectedLen = recordHeaderLen + handshakeLen", "c.expectedLen = int(uint16(recordHeaderLen + handshakeLen))")
mut("C04", "no-type-check", "pkg/hack/hajack_clienthello_conn.go",
    "if recType != recordTypeHandshake {", "if false {")
mut("C04", "read-modifies", "pkg/hack/hajack_clienthello_conn.go",
    "			c.hijackClientHello(b[:n])\n", "			c.hijackClientHello(b[:n])\n			if n > 6 && c.buf.Len() > 3000 {\n				b[6] ^= 1\n			}\n")
# ---- C20
mut("C20", "ignore-maxframe", "pkg/http2/writesched.go",
    "	if wr.stream.sc.maxFrameSize < allowed {\n		allowed = wr.stream.sc.maxFrameSize\n	}\n", "")
mut("C20", "undo-D7-fix", "pkg/http2/writesched_priority.go",
    "			if n == curr {\n", "			if false && n == curr {\n")
mut("C20", "rr-head-not-advanced-on-close", "pkg/http2/writesched_roundrobin.go",
    "		if ws.head == q {\n			ws.head = q.next\n		}\n", "")
mut("C20", "endstream-on-split", "pkg/http2/writesched.go",
    "				endStream: false,\n", "				endStream: wd.endStream,\n")
mut("C20", "rest-loses-a-byte", "pkg/http2/writesched.go",
    "				p:         wd.p[allowed:],", "				p:         wd.p[min(int(allowed)+1, len(wd.p)):],")
mut("C20", "control-after-data-random", "pkg/http2/writesched_random.go",
    "	if !ws.zero.empty() {\n		return ws.zero.shift(), true\n	}\n	// Iterate", "	if !ws.zero.empty() && len(ws.sq) == 0 {\n		return ws.zero.shift(), true\n	}\n	// Iterate")
mut("C20", "exclusive-cycle", "pkg/http2/writesched_priority.go",
    "			parent.setParent(n.parent)\n			break\n", "			break\n")
mut("C20", "closed-removal-drops-kids", "pkg/http2/writesched_priority.go",
    "	for n.kids != nil {\n		n.kids.setParent(n.parent)\n	}\n	n.setParent(nil)", "	n.setParent(nil)")
mut("C20", "prio-pop-skips-zero-window-sibling", "pkg/http2/writesched_priority.go",
    "		wr, ok = n.q.consume(limit)\n		if !ok {\n			return false\n		}", "		wr, ok = n.q.consume(limit)\n		if !ok {\n			return n.id%8 == 5\n		}")

# ---- C18
mut("C18", "undo-D6", "pkg/http2/hpack/hpack.go",
    "		if !isSizeUpdate {\n			d.firstField = false\n		}", "		_ = isSizeUpdate\n		d.firstField = false")
mut("C18", "undo-D15", "pkg/http2/hpack/encode.go",
    "		if v < e.minSize {\n			e.minSize = v\n		}\n		e.tableSizeUpdate = true\n		e.dynTab.setMaxSize(v)\n	}\n}\n\n// shouldIndex", "		e.tableSizeUpdate = true\n		e.dynTab.setMaxSize(v)\n	}\n}\n\n// shouldIndex")
mut("C18", "evict-ge", "pkg/http2/hpack/hpack.go",
    "for dt.size > dt.maxSize && n < dt.table.len() {", "for dt.size >= dt.maxSize && n < dt.table.len() {")
mut("C18", "index-off-by-one", "pkg/http2/hpack/hpack.go",
    "	if i > uint64(d.maxTableIndex()) {\n		return\n	}", "	if i > uint64(d.maxTableIndex())+1 {\n		return\n	}")
mut("C18", "sensitive-lost", "pkg/http2/hpack/hpack.go",
    "	hf.Sensitive = it.sensitive()\n", "	hf.Sensitive = it.sensitive() && len(hf.Value) < 20\n")
mut("C18", "size-update-unchecked", "pkg/http2/hpack/hpack.go",
    "	if size > uint64(d.dynTab.allowedMaxSize) {", "	if size > uint64(d.dynTab.allowedMaxSize)+4096 {")
mut("C18", "huffman-padding-unchecked", "pkg/http2/hpack/huffman.go",
    "	if mask := uint(1<<cbits - 1); cur&mask != mask {", "	if mask := uint(1<<cbits - 1); cbits < 3 && cur&mask != mask {")
mut("C18", "encoder-indexes-sensitive", "pkg/http2/hpack/encode.go",
    "	return !f.Sensitive && f.Size() <= e.dynTab.maxSize", "	return f.Size() <= e.dynTab.maxSize")
mut("C18", "encoder-index-too-big", "pkg/http2/hpack/encode.go",
    "	return !f.Sensitive && f.Size() <= e.dynTab.maxSize", "	return !f.Sensitive && f.Size() <= e.dynTab.maxSize+8")
mut("C18", "savebuf-drops-byte-on-long-fragment", "pkg/http2/hpack/hpack.go",
    "			d.saveBuf.Write(d.buf)\n			return len(p), nil", "			if len(d.buf) > 70 {\n				d.buf = d.buf[:len(d.buf)-1]\n			}\n			d.saveBuf.Write(d.buf)\n			return len(p), nil")
mut("C18", "literal-never-indexed-as-indexed", "pkg/http2/hpack/hpack.go",
    "		return d.parseFieldLiteral(4, indexedNever)", "		return d.parseFieldLiteral(4, indexedFalse)")

def run(argv):
    props = [a for a in argv if a.startswith("C")]
    sub = None
    if "-k" in argv:
        sub = argv[argv.index("-k")+1]
    env = dict(os.environ, GOFLAGS="-mod=mod", GOPROXY="off", GOSUMDB="off", GOTOOLCHAIN="local")
    results = []
    for m in M:
        if props and m["prop"] not in props: continue
        if sub and sub not in m["name"]: continue
        scratch = tempfile.mkdtemp(prefix="verif-mut-")
        try:
            dst = os.path.join(scratch, "repo")
            subprocess.run(["rsync", "-a", "--exclude", ".git", "--exclude", "e2e", "/repo/", dst + "/"], check=True)
            p = os.path.join(dst, m["file"])
            s = open(p).read()
            if s.count(m["old"]) < 1:
                results.append((m, "PATCH-DOES-NOT-APPLY", 0)); print(m["prop"], m["name"], "PATCH-DOES-NOT-APPLY"); continue
            s = s.replace(m["old"], m["new"], m["count"])
            open(p, "w").write(s)
            b = subprocess.run(["go", "build", "./..."], cwd=dst, env=env, capture_output=True, text=True)
            if b.returncode != 0:
                results.append((m, "DOES-NOT-COMPILE", 0)); print(m["prop"], m["name"], "DOES-NOT-COMPILE", b.stderr[-300:]); continue
            t0 = time.time()
            e2 = dict(env, VERIF_REPO=dst, VERIF_NO_EVIDENCE="1")
            r = subprocess.run(["./check", m["prop"], "quick"], cwd="/verif", env=e2, capture_output=True, text=True)
            caught = "VIOLATION property=" + m["prop"] in r.stdout
            first = next((l for l in r.stdout.splitlines() if "detail[" in l), "")[:200]
            st = "CAUGHT" if caught else "MISSED(rc=%d)" % r.returncode
            results.append((m, st, time.time()-t0))
            print(m["prop"], m["name"], st, "%.0fs" % (time.time()-t0), first, flush=True)
        finally:
            shutil.rmtree(scratch, ignore_errors=True)
    # restore evidence written by mutant runs: re-run is the caller's business
    missed = [m["name"] for m, st, _ in results if not st.startswith("CAUGHT")]
    print("mutants: %d, caught: %d, not caught: %s" % (len(results), len(results)-len(missed), missed))

if __name__ == "__main__":
    run(sys.argv[1:])
