// Package verdict is the shared result plumbing of the checks: seed and tier,
// evidence file, replay files, known-finding matching, three-valued exit code.
package verdict

import (
	"bufio"
	"crypto/sha256"
	"encoding/hex"
	"encoding/json"
	"flag"
	"fmt"
	"math/rand"
	"os"
	"path/filepath"
	"sort"
	"strconv"
	"strings"
	"sync"
	"time"
)

// Exit codes.
const (
	ExitHeld         = 0
	ExitViolated     = 1
	ExitInconclusive = 3
)

type Run struct {
	ID    string
	Tier  string
	Seed  int64
	Level string
	Rule  string

	ReplayFile string // --replay argument, if any

	start time.Time
	root  string

	mu          sync.Mutex
	evals       int64
	distinct    map[[8]byte]struct{}
	samples     []any
	maxSamples  int
	counters    map[string]int64
	extra       map[string]any
	assumptions []string
	violations  int
	printed     int
	knownHits   map[string]int
	knownLines  map[string]string // class -> text
	inconcl     []string
	violClasses map[string]int
	exhaustive  *bool
}

// Start reads VERIF_SEED / VERIF_TIER and the command line (-tier, -seed, -replay).
func Start(id, level, rule string) *Run {
	r := &Run{ID: id, Level: level, Rule: rule, start: time.Now(), maxSamples: 6,
		distinct: map[[8]byte]struct{}{}, counters: map[string]int64{}, extra: map[string]any{},
		knownHits: map[string]int{}, knownLines: map[string]string{}, violClasses: map[string]int{}}
	tier := os.Getenv("VERIF_TIER")
	seed := int64(1)
	if s := os.Getenv("VERIF_SEED"); s != "" {
		if v, err := strconv.ParseInt(s, 10, 64); err == nil {
			seed = v
		}
	}
	fs := flag.NewFlagSet(id, flag.ExitOnError)
	ft := fs.String("tier", "", "quick|thorough")
	fsd := fs.Int64("seed", seed, "seed")
	fr := fs.String("replay", "", "replay file")
	fs.Parse(os.Args[1:])
	if *ft != "" {
		tier = *ft
	}
	if tier != "thorough" {
		tier = "quick"
	}
	r.Tier, r.Seed, r.ReplayFile = tier, *fsd, *fr
	r.root = os.Getenv("VERIF_ROOT")
	if r.root == "" {
		r.root = "/verif"
	}
	r.loadKnown()
	return r
}

func (r *Run) Thorough() bool { return r.Tier == "thorough" }

// Pick returns q in the quick tier and t in the thorough tier.
func (r *Run) Pick(q, t int) int {
	if r.Thorough() {
		return t
	}
	return q
}

// Rand returns a PRNG determined by (seed, stream).
func (r *Run) Rand(stream int64) *rand.Rand {
	return rand.New(rand.NewSource(r.Seed*1000003 + stream*7919 + 17))
}

func (r *Run) Root() string { return r.root }

func (r *Run) loadKnown() {
	f, err := os.Open(filepath.Join(r.root, "KNOWN_FINDINGS.txt"))
	if err != nil {
		return
	}
	defer f.Close()
	sc := bufio.NewScanner(f)
	for sc.Scan() {
		line := strings.TrimSpace(sc.Text())
		if !strings.HasPrefix(line, "known:") {
			continue
		}
		fields := strings.Fields(line)
		var prop, class string
		for _, f := range fields {
			if strings.HasPrefix(f, "property=") {
				prop = strings.TrimPrefix(f, "property=")
			}
			if strings.HasPrefix(f, "class=") {
				class = strings.TrimPrefix(f, "class=")
			}
		}
		if prop == r.ID && class != "" {
			r.knownLines[class] = line
		}
	}
}

// IsKnown reports whether class is a listed known-finding class for this property.
func (r *Run) IsKnown(class string) bool {
	_, ok := r.knownLines[class]
	return ok
}

func (r *Run) Eval(n int) {
	r.mu.Lock()
	r.evals += int64(n)
	r.mu.Unlock()
}

// Distinct records a non-trivial case identified by key (hashed).
func (r *Run) Distinct(key string) {
	h := sha256.Sum256([]byte(key))
	var k [8]byte
	copy(k[:], h[:8])
	r.mu.Lock()
	r.distinct[k] = struct{}{}
	r.mu.Unlock()
}

func (r *Run) DistinctBytes(key []byte) {
	h := sha256.Sum256(key)
	var k [8]byte
	copy(k[:], h[:8])
	r.mu.Lock()
	r.distinct[k] = struct{}{}
	r.mu.Unlock()
}

// Sample keeps up to a handful of actual cases for the evidence file.
func (r *Run) Sample(v any) {
	r.mu.Lock()
	if len(r.samples) < r.maxSamples {
		r.samples = append(r.samples, v)
	}
	r.mu.Unlock()
}

func (r *Run) WantSample() bool {
	r.mu.Lock()
	defer r.mu.Unlock()
	return len(r.samples) < r.maxSamples
}

func (r *Run) Add(counter string, n int64) {
	r.mu.Lock()
	r.counters[counter] += n
	r.mu.Unlock()
}

func (r *Run) Counter(counter string) int64 {
	r.mu.Lock()
	defer r.mu.Unlock()
	return r.counters[counter]
}

func (r *Run) Set(key string, v any) {
	r.mu.Lock()
	r.extra[key] = v
	r.mu.Unlock()
}

func (r *Run) Assume(s string) {
	r.mu.Lock()
	r.assumptions = append(r.assumptions, s)
	r.mu.Unlock()
}

func (r *Run) SetExhaustive(b bool) {
	r.mu.Lock()
	r.exhaustive = &b
	r.mu.Unlock()
}

// Violation reports a refutation. class is a predicate on the *input* (or call
// site / history) computed by the check; when KNOWN_FINDINGS.txt lists that
// class for this property a KNOWN-FINDING line is printed instead.
// witness is written to a replay file.
func (r *Run) Violation(class string, witness any, format string, args ...any) {
	msg := fmt.Sprintf(format, args...)
	r.mu.Lock()
	defer r.mu.Unlock()
	if line, ok := r.knownLines[class]; ok {
		r.knownHits[class]++
		if r.knownHits[class] == 1 {
			fmt.Printf("KNOWN-FINDING: property=%s class=%s %s  [first instance: %s]\n", r.ID, class, descOf(line), oneLine(msg, 300))
		}
		return
	}
	r.violations++
	r.violClasses[class]++
	n := r.violations
	if r.violClasses[class] > 3 || r.printed >= 24 {
		return
	}
	r.printed++
	dir := filepath.Join(r.root, "replays")
	os.MkdirAll(dir, 0o755)
	path := filepath.Join(dir, fmt.Sprintf("%s-%d-%d.json", r.ID, r.Seed, n))
	b, err := json.MarshalIndent(map[string]any{
		"property": r.ID, "seed": r.Seed, "tier": r.Tier, "class": class,
		"message": msg, "witness": witness,
	}, "", " ")
	if err != nil {
		b = []byte(fmt.Sprintf("{\"property\":%q,\"message\":%q}", r.ID, msg))
	}
	os.WriteFile(path, b, 0o644)
	fmt.Printf("VIOLATION property=%s replay=%s\n", r.ID, path)
	fmt.Printf("  detail[%s]: %s\n", class, oneLine(msg, 600))
}

func descOf(line string) string {
	// strip "known: property=.. class=.."
	fs := strings.Fields(line)
	var out []string
	for _, f := range fs {
		if f == "known:" || strings.HasPrefix(f, "property=") || strings.HasPrefix(f, "class=") {
			continue
		}
		out = append(out, f)
	}
	return strings.Join(out, " ")
}

func oneLine(s string, max int) string {
	s = strings.ReplaceAll(s, "\n", " | ")
	if len(s) > max {
		s = s[:max] + "…"
	}
	return s
}

func (r *Run) Violations() int {
	r.mu.Lock()
	defer r.mu.Unlock()
	return r.violations
}

// Inconclusive records that part of the run could not decide.
func (r *Run) Inconclusive(format string, args ...any) {
	msg := fmt.Sprintf(format, args...)
	r.mu.Lock()
	r.inconcl = append(r.inconcl, msg)
	r.mu.Unlock()
}

// Require marks the run inconclusive when an expected observation floor is not met.
func (r *Run) Require(counter string, min int64) {
	if c := r.Counter(counter); c < min {
		r.Inconclusive("observed %s=%d, need at least %d", counter, c, min)
	}
}

func (r *Run) Logf(format string, args ...any) {
	fmt.Printf("[%s %6.1fs] %s\n", r.ID, time.Since(r.start).Seconds(), fmt.Sprintf(format, args...))
}

// Finish writes the evidence file and exits.
func (r *Run) Finish() {
	r.mu.Lock()
	if len(r.samples) == 0 && r.ReplayFile == "" && r.violations == 0 {
		r.inconcl = append(r.inconcl, "the run recorded no sample case")
	}
	cov := map[string]any{
		"evaluations":         r.evals,
		"distinct_nontrivial": len(r.distinct),
		"rule":                r.Rule,
		"samples":             r.samples,
	}
	if len(r.samples) == 0 {
		cov["samples"] = []any{}
	}
	keys := make([]string, 0, len(r.counters))
	for k := range r.counters {
		keys = append(keys, k)
	}
	sort.Strings(keys)
	obs := map[string]int64{}
	for _, k := range keys {
		obs[k] = r.counters[k]
	}
	cov["observed"] = obs
	for k, v := range r.extra {
		cov[k] = v
	}
	if r.exhaustive != nil {
		cov["exhaustive"] = *r.exhaustive
	}
	if len(r.knownHits) > 0 {
		cov["known_finding_instances"] = r.knownHits
	}
	if len(r.inconcl) > 0 {
		cov["inconclusive"] = r.inconcl
	}
	if len(r.violClasses) > 0 {
		cov["violation_classes"] = r.violClasses
		fmt.Printf("[%s] violation classes: %v\n", r.ID, r.violClasses)
	}
	if len(r.knownHits) > 0 {
		fmt.Printf("[%s] known-finding instances: %v\n", r.ID, r.knownHits)
	}
	ev := map[string]any{
		"property_id": r.ID,
		"tier":        r.Tier,
		"seed":        r.Seed,
		"level":       r.Level,
		"coverage":    cov,
		"assumptions": r.assumptions,
		"wall_s":      float64(int(time.Since(r.start).Seconds()*10)) / 10,
		"violations":  r.violations,
	}
	if r.assumptions == nil {
		ev["assumptions"] = []string{}
	}
	viol, inc := r.violations, append([]string(nil), r.inconcl...)
	evals, dist := r.evals, len(r.distinct)
	r.mu.Unlock()

	if r.ReplayFile == "" && os.Getenv("VERIF_NO_EVIDENCE") == "" {
		dir := filepath.Join(r.root, "evidence")
		os.MkdirAll(dir, 0o755)
		b, err := json.MarshalIndent(ev, "", " ")
		if err != nil {
			fmt.Printf("evidence marshal error: %v\n", err)
			os.Exit(ExitInconclusive)
		}
		tmp := filepath.Join(dir, r.ID+".json.tmp")
		os.WriteFile(tmp, b, 0o644)
		os.Rename(tmp, filepath.Join(dir, r.ID+".json"))
	}
	fmt.Printf("[%s] tier=%s seed=%d evaluations=%d distinct=%d violations=%d wall=%.1fs\n",
		r.ID, r.Tier, r.Seed, evals, dist, viol, time.Since(r.start).Seconds())
	if viol > 0 {
		os.Exit(ExitViolated)
	}
	if len(inc) > 0 {
		for _, m := range inc {
			fmt.Printf("INCONCLUSIVE property=%s %s\n", r.ID, m)
		}
		os.Exit(ExitInconclusive)
	}
	os.Exit(ExitHeld)
}

// Hex is a helper for witnesses.
func Hex(b []byte) string {
	if len(b) > 4096 {
		return hex.EncodeToString(b[:4096]) + fmt.Sprintf("…(+%d bytes)", len(b)-4096)
	}
	return hex.EncodeToString(b)
}

// LoadReplay reads the witness of a replay file into v.
func LoadReplay(path string, v any) error {
	b, err := os.ReadFile(path)
	if err != nil {
		return err
	}
	var wrap struct {
		Witness json.RawMessage `json:"witness"`
	}
	if err := json.Unmarshal(b, &wrap); err != nil {
		return err
	}
	return json.Unmarshal(wrap.Witness, v)
}
