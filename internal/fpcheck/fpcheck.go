//go:build verif

// Package fpcheck is the shared body of the C01 (JA3) and C02 (JA4) checks:
// forged hellos judged at the fingerprint-function boundary against the
// reference computed from the bytes, and real handshakes (utls as byte sender)
// through the full proxy stack judged at the recording backend.
package fpcheck

import (
	"bytes"
	"context"
	"crypto/tls"
	"encoding/hex"
	"fmt"
	"io"
	"math/rand"
	"net"
	"net/http"
	"regexp"
	"runtime"
	"strings"
	"sync"
	"time"

	fingerproxy "github.com/wi1dcard/fingerproxy"
	"github.com/wi1dcard/fingerproxy/pkg/fingerprint"
	"github.com/wi1dcard/fingerproxy/pkg/metadata"
	"github.com/wi1dcard/fingerproxy/pkg/reverseproxy"

	"verif/internal/hello"
	"verif/internal/rig"
	"verif/internal/verdict"
)

var ja4Re = regexp.MustCompile(`^t(10|11|12|13|00)[di][0-9]{2}[0-9]{2}[\x00-\x7f]{2}_[0-9a-f]{12}_[0-9a-f]{12}$`)

type checker struct {
	run  *verdict.Run
	ja4  bool
	cfg  *tls.Config
	name string // header name
}

type unitWitness struct {
	Family string       `json:"family"`
	Stream string       `json:"client_stream_hex"`
	Hello  *hello.Hello `json:"hello,omitempty"`
}

func (c *checker) impl(rec []byte) (string, error) {
	md := &metadata.Metadata{ClientHelloRecord: rec}
	if c.ja4 {
		return fingerprint.JA4Fingerprint(md)
	}
	return fingerprint.JA3Fingerprint(md)
}

func firstRecord(stream []byte) []byte {
	if len(stream) < 5 {
		return stream
	}
	n := 5 + (int(stream[3])<<8 | int(stream[4]))
	if n > len(stream) {
		n = len(stream)
	}
	return stream[:n]
}

// judgeUnit returns the implementation's value ("" when not produced) so that
// callers can compare variants.
func (c *checker) judgeUnit(family string, h *hello.Hello, stream []byte) (val string, judged bool) {
	run := c.run
	run.Eval(1)
	if !hello.Accepted(c.cfg, stream) {
		run.Add("outside_domain_rejected_by_crypto_tls", 1)
		return "", false
	}
	run.Add("accepted_by_crypto_tls", 1)
	p, err := hello.ParseStream(stream)
	if err != nil {
		run.Add("reference_parser_failed_on_accepted_hello", 1)
		run.Inconclusive("reference parser cannot read a hello crypto/tls accepted (%v): %x", err, stream[:min(len(stream), 80)])
		return "", false
	}
	cl := hello.Classify(stream, h)
	var want string
	if c.ja4 {
		j := p.JA4()
		if !j.ALPNJudged {
			run.Add("skipped_non_ascii_alpn", 1)
			return "", false
		}
		want = j.Value
	} else {
		want = p.JA3()
	}
	run.DistinctBytes(firstRecord(stream))
	var got string
	var ierr error
	func() {
		defer func() {
			if pn := recover(); pn != nil {
				ierr = fmt.Errorf("panic: %v", pn)
			}
		}()
		got, ierr = c.impl(firstRecord(stream))
	}()
	w := unitWitness{Family: family, Stream: hex.EncodeToString(stream), Hello: h}
	class := ""
	switch {
	case p.SpansRecords:
		class = "hello-spans-records"
	case !c.ja4 && cl.SNIListLenLoLtHi:
		class = "sni-list-len-lo<hi"
	case c.ja4 && cl.UtlsStrictBody:
		class = "utls-strict-extension-body"
	}
	if ierr != nil {
		if class == "" {
			class = "no-fingerprint-for-accepted-hello"
		}
		run.Violation(class, w, "%s: crypto/tls accepts the hello but the fingerprint function fails: %v (reference %s)", family, ierr, want)
		return "", true
	}
	if got != want {
		if class == "" {
			class = "wrong-fingerprint"
			if c.ja4 && len(got) > 10 && len(want) > 10 && got[:8] == want[:8] && got[10:] == want[10:] {
				class = "wrong-alpn-part"
			}
		}
		detail := ""
		if !c.ja4 {
			detail = " ja3 string: " + p.JA3String()
		}
		run.Violation(class, w, "%s: fingerprint %s, reference from the bytes %s%s", family, got, want, detail)
		return got, true
	}
	if c.ja4 && !ja4Re.MatchString(got) {
		run.Violation("bad-format", w, "%s: value %q is not of the form a_b_c", family, got)
	}
	if class != "" {
		run.Add("known_class_input_that_held_"+class, 1)
	}
	run.Add("unit_cases_judged", 1)
	if run.WantSample() && rand.Intn(400) == 0 {
		run.Sample(map[string]any{"family": family, "first_record_hex": hex.EncodeToString(firstRecord(stream)[:min(len(stream), 96)]) + "…", "fingerprint": got})
	}
	return got, true
}

// grid enumerates every GREASE-vs-plain pattern of length 0..3 for ciphers,
// extensions and groups, and 0..3 point formats.
func (c *checker) grid(jobs chan<- func()) int {
	var pats [][]bool
	for l := 0; l <= 3; l++ {
		for m := 0; m < 1<<l; m++ {
			p := make([]bool, l)
			for i := range p {
				p[i] = m&(1<<i) != 0
			}
			pats = append(pats, p)
		}
	}
	n := 0
	plainC := []uint16{0x002f, 0x0035, 0x009c}
	plainE := []uint16{0x5501, 0x5502, 0x5503}
	plainG := []uint16{29, 23, 24}
	for _, pc := range pats {
		for _, pe := range pats {
			for _, pg := range pats {
				for np := 0; np <= 3; np++ {
					for place := 0; place < 2; place++ {
						pc, pe, pg, np, place := pc, pe, pg, np, place
						n++
						jobs <- func() {
							h := &hello.Hello{LegacyVersion: 0x0303, Compression: []byte{0}, Random: make([]byte, 32)}
							for i, g := range pc {
								if g {
									h.Ciphers = append(h.Ciphers, hello.GreaseValues[(i*5+len(pe))%16])
								} else {
									h.Ciphers = append(h.Ciphers, plainC[i])
								}
							}
							var pat []hello.Ext
							for i, g := range pe {
								if g {
									pat = append(pat, hello.Grease(hello.GreaseValues[(i*3+len(pc)+1)%16], nil))
								} else {
									pat = append(pat, hello.Raw(plainE[i], []byte{1}))
								}
							}
							var fixed []hello.Ext
							if len(pg) > 0 {
								var gs []uint16
								for i, g := range pg {
									if g {
										gs = append(gs, hello.GreaseValues[(i*7+2)%16])
									} else {
										gs = append(gs, plainG[i])
									}
								}
								fixed = append(fixed, hello.SupportedGroups(gs...))
							}
							if np > 0 {
								fixed = append(fixed, hello.PointFormats([]byte{0, 1, 2}[:np]...))
							}
							if place == 0 {
								h.Exts = append(pat, fixed...)
							} else {
								h.Exts = append(fixed, pat...)
							}
							if len(h.Exts) == 0 && len(pe) == 0 && np == 0 && place == 1 {
								h.NoExtBlock = true
							}
							c.judgeUnit("shape-grid", h, h.Record())
						}
					}
				}
			}
		}
	}
	return n
}

// Main runs the check for prop ("C01" or "C02").
func Main(prop string) {
	ja4 := prop == "C02"
	rule := "forged ClientHellos (shape grid: every GREASE/plain pattern of length 0..3 for ciphers, extensions, groups x 0..3 point formats; PRNG-generated hellos with up to 150 ciphers/extensions, GREASE anywhere, known/unknown extensions, PSK, padding) filtered by crypto/tls acceptance, judged against the reference computed from the bytes; plus real handshakes (utls presets and random specs as byte sender, chopped delivery, h2 and http/1.1, 2-5 requests per connection) judged at the recording backend. Distinct = distinct first-record bytes of accepted hellos"
	if ja4 {
		rule += "; metamorphic variants (cipher/extension permutations, GREASE inserted/moved/replaced) must keep the value"
	}
	run := verdict.Start(prop, "exploration", rule)
	certs := rig.Certs()
	c := &checker{run: run, ja4: ja4, cfg: hello.ServerConfig(certs.RSA, certs.ECDSA), name: "X-Ja3-Fingerprint"}
	if ja4 {
		c.name = "X-Ja4-Fingerprint"
		repo := "/repo"
		m, mm, first, _ := hello.CalibrateJA4(repo)
		run.Set("reference_calibration_foxio_snapshots_matched", m)
		if mm > 0 || m < 50 {
			run.Inconclusive("JA4 reference disagrees with %d FoxIO snapshot values (matched %d): %s", mm, m, first)
			run.Finish()
		}
	} else {
		h := &hello.Hello{LegacyVersion: 769, Ciphers: []uint16{47, 53, 5, 10, 49161, 49162, 49171, 49172, 50, 56, 19, 4}, Compression: []byte{0},
			Exts: []hello.Ext{hello.SNI("a"), hello.SupportedGroups(23, 24, 25), hello.PointFormats(0)}}
		p, err := hello.ParseStream(h.Record())
		if err != nil || p.JA3String() != "769,47-53-5-10-49161-49162-49171-49172-50-56-19-4,0-10-11,23-24-25,0" || p.JA3() != "ada70206e40642a3e4461f35503241d5" {
			run.Inconclusive("JA3 reference fails the Salesforce worked example")
			run.Finish()
		}
		run.Set("reference_calibration", "Salesforce JA3 README example (string and digest)")
	}
	if run.ReplayFile != "" {
		var w unitWitness
		if err := verdict.LoadReplay(run.ReplayFile, &w); err != nil {
			run.Inconclusive("replay unreadable: %v", err)
			run.Finish()
		}
		b, _ := hex.DecodeString(w.Stream)
		c.judgeUnit("replay", w.Hello, b)
		run.Distinct("r1")
		run.Distinct("r2")
		run.Finish()
	}

	// ---- unit level
	jobs := make(chan func(), 512)
	var wg sync.WaitGroup
	for i := 0; i < runtime.NumCPU(); i++ {
		wg.Add(1)
		go func() {
			defer wg.Done()
			for f := range jobs {
				f()
			}
		}()
	}
	if !ja4 || run.Thorough() {
		n := c.grid(jobs)
		run.Set("shape_grid_hellos", n)
	}
	seeds := run.Rand(1)
	nrand := run.Pick(12000, 400000)
	if ja4 {
		nrand = run.Pick(8000, 200000)
	}
	K := run.Pick(4, 12)
	for i := 0; i < nrand; i++ {
		seed := seeds.Int63()
		jobs <- func() {
			r := rand.New(rand.NewSource(seed))
			h := hello.Random(r)
			base, judged := c.judgeUnit("random", h, h.Record())
			if !ja4 || !judged || base == "" {
				return
			}
			for k := 0; k < K; k++ {
				v := hello.Variant(h, r)
				got, judged := c.judgeUnit("variant", v, v.Record())
				if judged && got != "" && got != base {
					run.Violation("not-invariant", map[string]any{"base": hex.EncodeToString(h.Record()), "variant": hex.EncodeToString(v.Record())},
						"JA4 changed from %s to %s under a permutation / GREASE change", base, got)
				}
				if judged {
					run.Add("metamorphic_variants_judged", 1)
				}
			}
		}
	}
	// deliberately generated known-finding classes and boundary inputs
	for i := 0; i < 40; i++ {
		seed := seeds.Int63()
		i := i
		jobs <- func() {
			r := rand.New(rand.NewSource(seed))
			h := baseHello(r)
			switch i % 4 {
			case 0: // ClientHello fragmented over two records (crypto/tls reassembles)
				m := h.Message()
				c.judgeUnit("split-over-records", h, h.Records(1+r.Intn(len(m)-1)))
			case 1: // SNI list length 0x0100
				h.Exts = append([]hello.Ext{hello.SNI(strings.Repeat("a", 253))}, h.Exts...)
				c.judgeUnit("sni-253", h, h.Record())
			case 2:
				h.Exts = append(h.Exts, hello.Raw(27, nil))
				c.judgeUnit("ext27-empty", h, h.Record())
			case 3:
				h.Exts = append(h.Exts, hello.ALPN(string([]byte{byte('a' + r.Intn(26))}), "http/1.1"))
				c.judgeUnit("one-byte-alpn", h, h.Record())
			}
		}
	}
	close(jobs)
	wg.Wait()

	// ---- end to end
	c.endToEnd()

	run.Require("unit_cases_judged", 1000)
	run.Require("e2e_requests_judged", 100)
	run.Assume("input domain = hellos crypto/tls (configured like the proxy: TLS 1.2-1.3, h2/http1.1, RSA+ECDSA certificate) answers with a handshake record")
	if ja4 {
		run.Assume("ALPN part judged only when first and last byte of the first protocol are ASCII (DESIGN.md D10)")
	}
	run.Finish()
}

func baseHello(r *rand.Rand) *hello.Hello {
	h := &hello.Hello{LegacyVersion: 0x0303, Compression: []byte{0}, Random: make([]byte, 32), Ciphers: []uint16{0xc02f, 0x009c, 0x002f}}
	r.Read(h.Random)
	h.Exts = []hello.Ext{hello.SupportedGroups(29, 23), hello.PointFormats(0), hello.SigAlgs(0x0804, 0x0401, 0x0403)}
	return h
}

type extraInjector struct {
	name, val string
	fail      bool
}

func (e extraInjector) GetHeaderName() string { return e.name }
func (e extraInjector) GetHeaderValue(*http.Request) (string, error) {
	if e.fail {
		return "", fmt.Errorf("custom injector %s cannot compute a value for this request", e.name)
	}
	return e.val, nil
}

func (c *checker) endToEnd() {
	run := c.run
	be := rig.NewBackend(nil)
	defer be.Close()
	// proxy A: default injector set; proxy B: default + custom injectors
	pa, err := rig.StartProxy(be.URL, rig.ProxyOpts{})
	if err != nil {
		run.Inconclusive("cannot start proxy: %v", err)
		return
	}
	defer pa.Stop()
	saved := fingerproxy.GetHeaderInjectors
	fingerproxy.GetHeaderInjectors = func() []reverseproxy.HeaderInjector {
		// custom additions around the default three: one that fails for every request comes first
		inj := []reverseproxy.HeaderInjector{extraInjector{name: "X-Custom-Failing", fail: true}, extraInjector{name: "X-Custom-First", val: "1"}}
		inj = append(inj, fingerproxy.DefaultHeaderInjectors()...)
		return append(inj, extraInjector{name: "X-Custom-Between", fail: true}, extraInjector{name: "X-Custom-Last", val: "2"})
	}
	pb, err := rig.StartProxy(be.URL, rig.ProxyOpts{Args: []string{"-preserve-host"}})
	fingerproxy.GetHeaderInjectors = saved
	if err != nil {
		run.Inconclusive("cannot start proxy B: %v", err)
		return
	}
	defer pb.Stop()
	// proxy C: verbose logging on (a configuration, not an input: the header must not depend on it; after seeded change C01-M,
	// where the hex dump of the hello in the verbose log cut the record that is fingerprinted afterwards)
	pc, err := rig.StartProxy(be.URL, rig.ProxyOpts{Args: []string{"-verbose"}})
	if err != nil {
		run.Inconclusive("cannot start proxy C: %v", err)
		return
	}
	defer pc.Stop()

	n := run.Pick(300, 5000)
	sem := make(chan struct{}, 24)
	var wg sync.WaitGroup
	for i := 0; i < n; i++ {
		wg.Add(1)
		sem <- struct{}{}
		go func(i int) {
			defer wg.Done()
			defer func() { <-sem }()
			if i%5 == 4 {
				run.Add("e2e_connections_to_the_proxy_with_verbose_logging", 1)
				c.oneConn(i, be, pc, false)
				return
			}
			c.oneConn(i, be, []*rig.Proxy{pa, pb}[i%2], i%2 == 1)
		}(i)
	}
	wg.Wait()
	// synchronized bursts: 32 clients with different hellos start connecting at the same instant, so that
	// their handshakes complete (and their connections are set up) together
	for b := 0; b < run.Pick(24, 150); b++ {
		gate := make(chan struct{})
		for k := 0; k < 32; k++ {
			wg.Add(1)
			go func(i int) {
				defer wg.Done()
				<-gate
				c.oneConn(i, be, pa, false)
			}(n + b*32 + k)
		}
		close(gate)
		wg.Wait()
		run.Add("e2e_synchronized_bursts", 1)
	}
}

func (c *checker) oneConn(i int, be *rig.Backend, px *rig.Proxy, custom bool) {
	run := c.run
	r := run.Rand(int64(5000 + i))
	alpn := [][]string{{"h2", "http/1.1"}, {"http/1.1"}, {"h2"}, nil}[r.Intn(4)]
	var desc hello.SpecDesc
	var chop func(int) int
	switch r.Intn(3) {
	case 0:
		chop = func(rem int) int { return 1 }
	case 1:
		cr := rand.New(rand.NewSource(r.Int63()))
		var mu sync.Mutex
		chop = func(rem int) int { mu.Lock(); defer mu.Unlock(); return 1 + cr.Intn(7) }
	}
	// every fifth connection: the ClientHello and the compatibility change_cipher_spec record a TLS 1.3
	// client may send (RFC 8446 D.4; the server ignores it) leave in ONE segment, or after a first
	// fragment shorter than a record header (clients that do not offer TLS 1.3 fail this handshake)
	var tweak []func(*rig.RecConn)
	withCCS := i%5 == 2
	if withCCS {
		chop = nil
		split := []int{0, 0, 1, 3, 4}[r.Intn(5)]
		tweak = append(tweak, func(rc *rig.RecConn) {
			rc.AfterFirstWrite = []byte{0x14, 0x03, 0x03, 0x00, 0x01, 0x01}
			rc.FirstSplit = split
		})
	}
	var conn net.Conn
	var rc *rig.RecConn
	var proto string
	sni := fmt.Sprintf("c%d.example", i)
	local := &net.TCPAddr{IP: net.IPv4(127, 0, 0, byte(1+r.Intn(8)))}
	if r.Intn(6) == 0 { // crypto/tls as a client as well
		cfg := &tls.Config{InsecureSkipVerify: true, ServerName: sni, NextProtos: alpn}
		if r.Intn(2) == 0 && !withCCS {
			cfg.MaxVersion = tls.VersionTLS12
		}
		tc, rcc, err := rig.StdDial(px.Addr, cfg, chop, local, tweak...)
		if err != nil {
			run.Add("e2e_handshake_failed", 1)
			return
		}
		conn, rc, proto = tc, rcc, tc.ConnectionState().NegotiatedProtocol
		desc = hello.SpecDesc{Kind: "crypto/tls", ALPN: alpn}
	} else {
		var spec interface{}
		_ = spec
		var uc interface {
			net.Conn
		}
		var err error
		if r.Intn(2) == 0 {
			s, d, e := hello.PresetSpec(r, alpn)
			if e != nil {
				run.Add("e2e_spec_failed", 1)
				return
			}
			desc = d
			u, rcc, e2 := rig.UTLSDial(px.Addr, s, sni, chop, local, tweak...)
			if e2 != nil {
				if withCCS {
					run.Add("e2e_handshake_with_early_ccs_failed", 1)
				} else {
					run.Add("e2e_handshake_failed", 1)
				}
				return
			}
			uc, rc, err = u, rcc, nil
			proto = u.ConnectionState().NegotiatedProtocol
		} else {
			s, d := hello.CustomSpec(r, alpn)
			desc = d
			u, rcc, e2 := rig.UTLSDial(px.Addr, s, sni, chop, local, tweak...)
			if e2 != nil {
				if withCCS {
					run.Add("e2e_handshake_with_early_ccs_failed", 1)
				} else {
					run.Add("e2e_handshake_failed", 1)
				}
				return
			}
			uc, rc, err = u, rcc, nil
			proto = u.ConnectionState().NegotiatedProtocol
		}
		_ = err
		conn = uc
	}
	defer conn.Close()
	if rc != nil {
		rc.Chop = nil // only the handshake flight is chopped
	}
	stream := rc.Bytes()
	p, err := hello.ParseStream(stream)
	if err != nil {
		run.Add("e2e_reference_parse_failed", 1)
		return
	}
	var want string
	if c.ja4 {
		j := p.JA4()
		if !j.ALPNJudged {
			return
		}
		want = j.Value
	} else {
		want = p.JA3()
	}
	run.DistinctBytes(firstRecord(stream))
	run.Add("e2e_connections_"+map[string]string{"h2": "h2", "http/1.1": "h1", "": "h1_noalpn"}[proto], 1)
	if chop != nil {
		run.Add("e2e_connections_chopped_delivery", 1)
	}
	if withCCS {
		run.Add("e2e_connections_hello_and_ccs_in_one_segment", 1)
	}
	if len(stream) >= 5 {
		if n := int(stream[3])<<8 | int(stream[4]); n >= 16380 {
			run.Add("e2e_connections_first_record_payload_16380_or_more", 1)
		} else if n >= 16000 {
			run.Add("e2e_connections_first_record_payload_16000_to_16379", 1)
		}
	}
	nreq := 2 + r.Intn(4)
	tags := make([]string, nreq)
	for k := range tags {
		tags[k] = fmt.Sprintf("%s-%d-%d-%d", run.ID, run.Seed, i, k)
	}
	if proto == "h2" {
		cc, err := rig.NewH2(conn)
		if err != nil {
			run.Add("e2e_h2_setup_failed", 1)
			return
		}
		var rw sync.WaitGroup
		for k := range tags {
			rw.Add(1)
			go func(k int) {
				defer rw.Done()
				ctx, cancel := context.WithTimeout(context.Background(), 20*time.Second)
				defer cancel()
				req, _ := http.NewRequestWithContext(ctx, "GET", "https://"+px.Addr+"/p", nil)
				req.Header.Set(rig.TagHeader, tags[k])
				resp, err := cc.RoundTrip(req)
				if err == nil {
					io.Copy(io.Discard, resp.Body)
					resp.Body.Close()
				}
			}(k)
			if r.Intn(2) == 0 {
				rw.Wait()
			}
		}
		rw.Wait()
	} else {
		h1 := rig.NewH1(conn)
		for k := range tags {
			// a third of the HTTP/1.1 requests nominate the fingerprint header as hop-by-hop in their Connection
			// header (with or without a value of their own): whatever the proxy removes on behalf of the client,
			// its own header must arrive (after seeded change C01-K)
			var extra []string
			switch (i + k) % 6 {
			case 1:
				extra = []string{"Connection: keep-alive, " + c.name}
				run.Add("e2e_h1_requests_naming_the_header_in_connection", 1)
			case 4:
				extra = []string{"Connection: " + strings.ToLower(c.name) + ", X-Whatever", c.name + ": from-the-client", "X-Whatever: 1"}
				run.Add("e2e_h1_requests_naming_the_header_in_connection", 1)
			}
			if _, _, err := h1.Do(rig.SimpleGet("front.example", "/p", tags[k], extra...), "GET", 20*time.Second); err != nil {
				break
			}
		}
	}
	for _, tag := range tags {
		recs := be.Records(tag)
		if len(recs) == 0 {
			run.Add("e2e_requests_not_forwarded", 1)
			continue
		}
		vals := recs[0].Header.Values(c.name)
		run.Eval(1)
		run.Add("e2e_requests_judged", 1)
		w := map[string]any{"spec": desc, "protocol": proto, "client_first_flight_hex": hex.EncodeToString(firstRecord(stream)), "header_values": vals, "custom_injectors": custom}
		if len(vals) != 1 || vals[0] != want {
			class := "e2e-wrong-header"
			if p.SpansRecords {
				class = "hello-spans-records"
			} else if cl := hello.Classify(stream, nil); !c.ja4 && cl.SNIListLenLoLtHi {
				class = "sni-list-len-lo<hi"
			}
			run.Violation(class, w, "request %s over %s (%s): backend saw %s=%q, reference from the bytes the client wrote is %s", tag, proto, desc.Kind, c.name, vals, want)
		}
		if custom {
			if recs[0].Header.Get("X-Custom-First") != "1" || recs[0].Header.Get("X-Custom-Last") != "2" {
				run.Violation("custom-injector-lost", w, "custom injector headers missing at the backend")
			}
		}
	}
	_ = bytes.Equal
}
