// Package rig holds the shared test rig: certificates, recording backend,
// in-process proxy, accounting listener, clients.
package rig

import (
	"crypto/ecdsa"
	"crypto/elliptic"
	"crypto/rand"
	"crypto/rsa"
	"crypto/tls"
	"crypto/x509"
	"crypto/x509/pkix"
	"encoding/pem"
	"math/big"
	"net"
	"sync"
	"time"
)

type CertSet struct {
	RSA   tls.Certificate
	ECDSA tls.Certificate
	// PEM encodings (certificate, key)
	RSACertPEM, RSAKeyPEM     []byte
	ECDSACertPEM, ECDSAKeyPEM []byte
}

var (
	certOnce sync.Once
	certSet  *CertSet
)

// Certs returns a process-wide RSA and ECDSA self-signed certificate.
func Certs() *CertSet {
	certOnce.Do(func() {
		certSet = &CertSet{}
		rk, _ := rsa.GenerateKey(rand.Reader, 2048)
		c, cp, kp := SelfSigned(rk, big.NewInt(1001), "verif-rsa")
		certSet.RSA, certSet.RSACertPEM, certSet.RSAKeyPEM = c, cp, kp
		ek, _ := ecdsa.GenerateKey(elliptic.P256(), rand.Reader)
		c2, cp2, kp2 := SelfSigned(ek, big.NewInt(1002), "verif-ecdsa")
		certSet.ECDSA, certSet.ECDSACertPEM, certSet.ECDSAKeyPEM = c2, cp2, kp2
	})
	return certSet
}

// SelfSigned makes a self-signed certificate for key with the given serial and
// returns the tls.Certificate plus PEM encodings of certificate and key.
func SelfSigned(key any, serial *big.Int, cn string) (tls.Certificate, []byte, []byte) {
	tmpl := &x509.Certificate{
		SerialNumber: serial,
		Subject:      pkix.Name{CommonName: cn},
		NotBefore:    time.Now().Add(-time.Hour),
		NotAfter:     time.Now().Add(240 * time.Hour),
		KeyUsage:     x509.KeyUsageDigitalSignature | x509.KeyUsageKeyEncipherment,
		ExtKeyUsage:  []x509.ExtKeyUsage{x509.ExtKeyUsageServerAuth},
		DNSNames:     []string{"localhost", "example.com", "*.example"},
		IPAddresses:  []net.IP{net.ParseIP("127.0.0.1"), net.ParseIP("::1")},
	}
	var pub any
	switch k := key.(type) {
	case *rsa.PrivateKey:
		pub = &k.PublicKey
	case *ecdsa.PrivateKey:
		pub = &k.PublicKey
	}
	der, err := x509.CreateCertificate(rand.Reader, tmpl, tmpl, pub, key)
	if err != nil {
		panic(err)
	}
	kb, err := x509.MarshalPKCS8PrivateKey(key)
	if err != nil {
		panic(err)
	}
	certPEM := pem.EncodeToMemory(&pem.Block{Type: "CERTIFICATE", Bytes: der})
	keyPEM := pem.EncodeToMemory(&pem.Block{Type: "PRIVATE KEY", Bytes: kb})
	c, err := tls.X509KeyPair(certPEM, keyPEM)
	if err != nil {
		panic(err)
	}
	return c, certPEM, keyPEM
}
