package rig

import (
	"errors"
	"io"
	"net"
	"os"
	"sync"
	"sync/atomic"
	"syscall"
	"time"
)

// AcctListener numbers every accepted connection, records what the server
// does with it (reads, writes, deadlines, Close) and can inject a fault at the
// k-th I/O operation of a connection.
type AcctListener struct {
	net.Listener
	mu    sync.Mutex
	conns []*AcctConn
	// PlanFor, if set, is asked once per accepted connection (index from 0).
	PlanFor func(index int, c net.Conn) *FaultPlan
	accepts int64
	closed  int64
}

// FaultPlan injects one fault into one connection.
type FaultPlan struct {
	Op   int    // 1-based index of the I/O operation (Read, Write, Set*Deadline counted together) that fails
	Kind string // reset | timeout | eof | short-write | deadline-error | stall-write
	// stall-write: the first Write of at least MinLen bytes blocks for StallMs milliseconds and
	// then fails with a connection reset, like a peer that stopped reading and then went away;
	// every later Write fails at once.
	MinLen  int
	StallMs int
	// Delay before every operation (0 = none)
	Delay time.Duration
}

type AcctConn struct {
	net.Conn
	Index    int
	l        *AcctListener
	plan     *FaultPlan
	ops      int64
	reads    int64
	writes   int64
	bytesIn  int64
	bytesOut int64
	closeN   int32
	ClosedAt time.Time
	AcceptAt time.Time
	faulted  int32
	Done     chan struct{} // closed on first Close()
}

func NewAcctListener(l net.Listener) *AcctListener { return &AcctListener{Listener: l} }

func (l *AcctListener) Accept() (net.Conn, error) {
	c, err := l.Listener.Accept()
	if err != nil {
		return nil, err
	}
	l.mu.Lock()
	ac := &AcctConn{Conn: c, Index: len(l.conns), l: l, AcceptAt: time.Now(), Done: make(chan struct{})}
	l.conns = append(l.conns, ac)
	pf := l.PlanFor
	l.mu.Unlock()
	atomic.AddInt64(&l.accepts, 1)
	if pf != nil {
		ac.plan = pf(ac.Index, ac)
	}
	return ac, nil
}

// Conns returns the accepted connections so far.
func (l *AcctListener) Conns() []*AcctConn {
	l.mu.Lock()
	defer l.mu.Unlock()
	return append([]*AcctConn{}, l.conns...)
}

func (l *AcctListener) Accepted() int    { return int(atomic.LoadInt64(&l.accepts)) }
func (l *AcctListener) ClosedCount() int { return int(atomic.LoadInt64(&l.closed)) }

// Open returns the accepted connections whose Close has not been called.
func (l *AcctListener) Open() []*AcctConn {
	var out []*AcctConn
	for _, c := range l.Conns() {
		if atomic.LoadInt32(&c.closeN) == 0 {
			out = append(out, c)
		}
	}
	return out
}

type timeoutError struct{}

func (timeoutError) Error() string   { return "i/o timeout (injected)" }
func (timeoutError) Timeout() bool   { return true }
func (timeoutError) Temporary() bool { return true }

func (c *AcctConn) fault(op string) (error, bool) {
	n := atomic.AddInt64(&c.ops, 1)
	p := c.plan
	if p == nil {
		return nil, false
	}
	if p.Delay > 0 {
		time.Sleep(p.Delay)
	}
	if p.Op == 0 || int(n) != p.Op || p.Kind == "stall-write" {
		return nil, false
	}
	atomic.StoreInt32(&c.faulted, 1)
	switch p.Kind {
	case "reset":
		return &net.OpError{Op: op, Net: "tcp", Err: os.NewSyscallError(op, syscall.ECONNRESET)}, true
	case "timeout":
		return &net.OpError{Op: op, Net: "tcp", Err: timeoutError{}}, true
	case "eof":
		return io.EOF, true
	case "deadline-error":
		return errors.New("set deadline: injected failure"), true
	case "short-write":
		return io.ErrShortWrite, true
	}
	return errors.New("injected failure"), true
}

func (c *AcctConn) Faulted() bool   { return atomic.LoadInt32(&c.faulted) == 1 }
func (c *AcctConn) Ops() int        { return int(atomic.LoadInt64(&c.ops)) }
func (c *AcctConn) Closed() bool    { return atomic.LoadInt32(&c.closeN) > 0 }
func (c *AcctConn) CloseCalls() int { return int(atomic.LoadInt32(&c.closeN)) }

func (c *AcctConn) Read(b []byte) (int, error) {
	if err, ok := c.fault("read"); ok {
		return 0, err
	}
	n, err := c.Conn.Read(b)
	atomic.AddInt64(&c.reads, 1)
	atomic.AddInt64(&c.bytesIn, int64(n))
	return n, err
}

func (c *AcctConn) Write(b []byte) (int, error) {
	if p := c.plan; p != nil && p.Kind == "stall-write" {
		atomic.AddInt64(&c.ops, 1)
		if atomic.LoadInt32(&c.faulted) == 1 {
			return 0, &net.OpError{Op: "write", Net: "tcp", Err: os.NewSyscallError("write", syscall.ECONNRESET)}
		}
		if len(b) >= p.MinLen {
			atomic.StoreInt32(&c.faulted, 1)
			time.Sleep(time.Duration(p.StallMs) * time.Millisecond)
			return 0, &net.OpError{Op: "write", Net: "tcp", Err: os.NewSyscallError("write", syscall.ECONNRESET)}
		}
		n, err := c.Conn.Write(b)
		atomic.AddInt64(&c.writes, 1)
		return n, err
	}
	if err, ok := c.fault("write"); ok {
		if c.plan.Kind == "short-write" && len(b) > 1 {
			n, _ := c.Conn.Write(b[:len(b)/2])
			return n, err
		}
		return 0, err
	}
	n, err := c.Conn.Write(b)
	atomic.AddInt64(&c.writes, 1)
	atomic.AddInt64(&c.bytesOut, int64(n))
	return n, err
}

func (c *AcctConn) SetDeadline(t time.Time) error {
	if c.plan != nil && c.plan.Kind == "deadline-error" {
		if err, ok := c.fault("set"); ok {
			return err
		}
	}
	return c.Conn.SetDeadline(t)
}
func (c *AcctConn) SetReadDeadline(t time.Time) error {
	if c.plan != nil && c.plan.Kind == "deadline-error" {
		if err, ok := c.fault("set"); ok {
			return err
		}
	}
	return c.Conn.SetReadDeadline(t)
}
func (c *AcctConn) SetWriteDeadline(t time.Time) error {
	if c.plan != nil && c.plan.Kind == "deadline-error" {
		if err, ok := c.fault("set"); ok {
			return err
		}
	}
	return c.Conn.SetWriteDeadline(t)
}

func (c *AcctConn) Close() error {
	if atomic.AddInt32(&c.closeN, 1) == 1 {
		c.ClosedAt = time.Now()
		atomic.AddInt64(&c.l.closed, 1)
		close(c.Done)
	}
	return c.Conn.Close()
}

// WaitAllClosed waits until every accepted connection has been closed.
func (l *AcctListener) WaitAllClosed(timeout time.Duration) bool {
	deadline := time.Now().Add(timeout)
	for {
		if len(l.Open()) == 0 {
			return true
		}
		if time.Now().After(deadline) {
			return false
		}
		time.Sleep(2 * time.Millisecond)
	}
}
