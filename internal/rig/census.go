package rig

import (
	"runtime"
	"strings"
)

// Census counts goroutines whose stack mentions one of the markers
// (e.g. "fingerproxy/pkg/", "net/http.(*conn).serve").
func Census(markers ...string) (n int, stacks []string) {
	buf := make([]byte, 1<<20)
	for {
		m := runtime.Stack(buf, true)
		if m < len(buf) {
			buf = buf[:m]
			break
		}
		buf = make([]byte, 2*len(buf))
	}
	for _, g := range strings.Split(string(buf), "\n\n") {
		for _, mk := range markers {
			if strings.Contains(g, mk) {
				n++
				stacks = append(stacks, g)
				break
			}
		}
	}
	return
}
