package rig

import (
	"bufio"
	"bytes"
	"crypto/tls"
	"fmt"
	"io"
	"net"
	"net/http"
	"strings"
	"sync"
	"time"

	utls "github.com/refraction-networking/utls"
	xhttp2 "golang.org/x/net/http2"
)

// RecConn records everything written to (and optionally chops what is written into) the socket.
type RecConn struct {
	net.Conn
	mu      sync.Mutex
	Written bytes.Buffer
	// Chop, if set, returns the size of the next segment to write (>=1).
	Chop func(remaining int) int
	// AfterFirstWrite, if set, is sent in the same segment as (the rest of) the first Write: e.g. the
	// compatibility change_cipher_spec record a TLS 1.3 client may send right after its ClientHello.
	// FirstSplit > 0 sends that many bytes of the first Write on their own beforehand.
	AfterFirstWrite []byte
	FirstSplit      int
	writes          int
}

func (c *RecConn) Write(b []byte) (int, error) {
	c.mu.Lock()
	c.Written.Write(b)
	chop := c.Chop
	c.writes++
	first := c.writes == 1 && c.AfterFirstWrite != nil
	if first {
		c.Written.Write(c.AfterFirstWrite)
	}
	c.mu.Unlock()
	if first {
		rest := b
		if c.FirstSplit > 0 && c.FirstSplit < len(b) {
			if _, err := c.Conn.Write(b[:c.FirstSplit]); err != nil {
				return 0, err
			}
			time.Sleep(30 * time.Millisecond) // the prefix is to arrive in a read of its own
			rest = b[c.FirstSplit:]
		}
		if _, err := c.Conn.Write(append(append([]byte{}, rest...), c.AfterFirstWrite...)); err != nil {
			return 0, err
		}
		return len(b), nil
	}
	if chop == nil {
		return c.Conn.Write(b)
	}
	total := 0
	for len(b) > 0 {
		n := chop(len(b))
		if n < 1 || n > len(b) {
			n = len(b)
		}
		w, err := c.Conn.Write(b[:n])
		total += w
		if err != nil {
			return total, err
		}
		b = b[n:]
	}
	return total, nil
}

// FirstFlight returns the bytes written so far.
func (c *RecConn) Bytes() []byte {
	c.mu.Lock()
	defer c.mu.Unlock()
	return append([]byte{}, c.Written.Bytes()...)
}

// UTLSDial performs a TLS handshake with the given utls ClientHello spec and
// returns the connection, the negotiated protocol and the recorder.
func UTLSDial(addr string, spec *utls.ClientHelloSpec, serverName string, chop func(int) int, local net.Addr, tweak ...func(*RecConn)) (*utls.UConn, *RecConn, error) {
	d := net.Dialer{Timeout: 10 * time.Second, LocalAddr: local}
	raw, err := d.Dial("tcp", addr)
	if err != nil {
		return nil, nil, err
	}
	if tc, ok := raw.(*net.TCPConn); ok {
		tc.SetNoDelay(true)
	}
	rc := &RecConn{Conn: raw, Chop: chop}
	for _, t := range tweak {
		t(rc)
	}
	uc := utls.UClient(rc, &utls.Config{InsecureSkipVerify: true, ServerName: serverName}, utls.HelloCustom)
	if err := uc.ApplyPreset(spec); err != nil {
		raw.Close()
		return nil, nil, fmt.Errorf("apply preset: %w", err)
	}
	raw.SetDeadline(time.Now().Add(20 * time.Second))
	if err := uc.Handshake(); err != nil {
		raw.Close()
		return nil, rc, fmt.Errorf("handshake: %w", err)
	}
	raw.SetDeadline(time.Time{})
	return uc, rc, nil
}

// StdDial is a crypto/tls client with a recorder underneath.
func StdDial(addr string, cfg *tls.Config, chop func(int) int, local net.Addr, tweak ...func(*RecConn)) (*tls.Conn, *RecConn, error) {
	d := net.Dialer{Timeout: 10 * time.Second, LocalAddr: local}
	raw, err := d.Dial("tcp", addr)
	if err != nil {
		return nil, nil, err
	}
	rc := &RecConn{Conn: raw, Chop: chop}
	for _, t := range tweak {
		t(rc)
	}
	c := tls.Client(rc, cfg)
	raw.SetDeadline(time.Now().Add(20 * time.Second))
	if err := c.Handshake(); err != nil {
		raw.Close()
		return nil, rc, err
	}
	raw.SetDeadline(time.Time{})
	return c, rc, nil
}

// H1 sends one HTTP/1.1 request given as raw text (must end with the blank
// line and any body) and parses the response.
type H1Client struct {
	Conn net.Conn
	br   *bufio.Reader
}

func NewH1(c net.Conn) *H1Client { return &H1Client{Conn: c, br: bufio.NewReader(c)} }

func (h *H1Client) Do(raw string, method string, timeout time.Duration) (*http.Response, []byte, error) {
	h.Conn.SetDeadline(time.Now().Add(timeout))
	defer h.Conn.SetDeadline(time.Time{})
	if _, err := io.WriteString(h.Conn, raw); err != nil {
		return nil, nil, err
	}
	resp, err := http.ReadResponse(h.br, &http.Request{Method: method})
	if err != nil {
		return nil, nil, err
	}
	body, err := io.ReadAll(resp.Body)
	resp.Body.Close()
	return resp, body, err
}

// SimpleGet formats a minimal GET with extra header lines ("Name: value").
func SimpleGet(host, path, tag string, extra ...string) string {
	var sb strings.Builder
	fmt.Fprintf(&sb, "GET %s HTTP/1.1\r\nHost: %s\r\n%s: %s\r\n", path, host, TagHeader, tag)
	for _, e := range extra {
		sb.WriteString(e + "\r\n")
	}
	sb.WriteString("\r\n")
	return sb.String()
}

// H2 wraps an established TLS connection (ALPN h2) with the independent
// x/net v0.19.0 client connection.
func NewH2(c net.Conn) (*xhttp2.ClientConn, error) {
	t := &xhttp2.Transport{}
	return t.NewClientConn(c)
}
