//go:build verif

package rig

import (
	"crypto/tls"
	"fmt"
	"net"
	"net/http"
	"strconv"
	"strings"
	"time"

	"golang.org/x/net/http2"
	"golang.org/x/net/http2/hpack"

	"verif/internal/h2peer"
)

// Session is one client connection to the proxy with header-level control on
// both protocols: raw text on HTTP/1.1, raw frames (independent Framer) on HTTP/2.
type Session struct {
	Scheme string // HTTP/2 :scheme pseudo-header ("" = https)
	Proto   string
	TLS     *tls.Conn
	Rec     *RecConn
	LocalIP string
	h1      *H1Client
	Peer    *h2peer.Peer
	nextID  uint32
}

type Resp struct {
	Status int
	Header http.Header
	Body   []byte
}

// Dial connects with crypto/tls offering alpn; cfgTweak may adjust the client config.
func Dial(addr string, alpn []string, local net.Addr, cfgTweak func(*tls.Config)) (*Session, error) {
	cfg := &tls.Config{InsecureSkipVerify: true, ServerName: "front.example", NextProtos: alpn}
	if cfgTweak != nil {
		cfgTweak(cfg)
	}
	c, rc, err := StdDial(addr, cfg, nil, local)
	if err != nil {
		return nil, err
	}
	return NewSession(c, c.ConnectionState().NegotiatedProtocol, rc)
}

// NewSession wraps an established TLS connection.
func NewSession(c net.Conn, proto string, rc *RecConn) (*Session, error) {
	s := &Session{Proto: proto, Rec: rc, nextID: 1}
	if tc, ok := c.(*tls.Conn); ok {
		s.TLS = tc
	}
	if rc != nil {
		if ta, ok := rc.Conn.LocalAddr().(*net.TCPAddr); ok {
			s.LocalIP = ta.IP.String()
		}
	}
	if proto == "h2" {
		s.Peer = h2peer.New(c, nil)
		if err := s.Peer.Preface(); err != nil {
			c.Close()
			return nil, err
		}
	} else {
		s.h1 = NewH1(c)
	}
	return s, nil
}

func (s *Session) Close() {
	if s.Peer != nil {
		s.Peer.Close()
	} else if s.h1 != nil {
		s.h1.Conn.Close()
	}
}

// Do sends one request. headers are sent exactly as given (order, case on
// HTTP/1.1; on HTTP/2 names must already be lower case). host is the Host
// header / :authority.
func (s *Session) Do(method, path, host string, headers [][2]string, body []byte, timeout time.Duration) (*Resp, error) {
	if s.Proto == "h2" {
		id := s.nextID
		s.nextID += 2
		scheme := "https"
		if s.Scheme != "" {
			scheme = s.Scheme
		}
		f := []hpack.HeaderField{{Name: ":method", Value: method}, {Name: ":scheme", Value: scheme}, {Name: ":authority", Value: host}, {Name: ":path", Value: path}}
		for _, h := range headers {
			f = append(f, hpack.HeaderField{Name: h[0], Value: h[1]})
		}
		if len(body) > 0 {
			f = append(f, hpack.HeaderField{Name: "content-length", Value: strconv.Itoa(len(body))})
		}
		if err := s.Peer.Request(id, len(body) == 0, f...); err != nil {
			return nil, err
		}
		if len(body) > 0 {
			if err := s.Peer.Do(func(fr *http2.Framer) error { return fr.WriteData(id, true, body) }); err != nil {
				return nil, err
			}
		}
		r, ok := s.Peer.WaitResponse(id, timeout)
		if !ok {
			return nil, fmt.Errorf("h2: no complete response on stream %d within %v (reset=%v ended=%v)", id, timeout, r.Reset, s.Peer.Ended())
		}
		if r.Reset {
			return nil, fmt.Errorf("h2: stream %d reset: %v", id, r.ResetCode)
		}
		st, _ := strconv.Atoi(r.Status)
		out := &Resp{Status: st, Header: http.Header{}, Body: r.Body}
		for _, h := range r.Headers {
			if !strings.HasPrefix(h.Name, ":") {
				out.Header.Add(h.Name, h.Value)
			}
		}
		return out, nil
	}
	var sb strings.Builder
	fmt.Fprintf(&sb, "%s %s HTTP/1.1\r\nHost: %s\r\n", method, path, host)
	for _, h := range headers {
		sb.WriteString(h[0] + ": " + h[1] + "\r\n")
	}
	if len(body) > 0 {
		fmt.Fprintf(&sb, "Content-Length: %d\r\n", len(body))
	}
	sb.WriteString("\r\n")
	sb.Write(body)
	resp, b, err := s.h1.Do(sb.String(), method, timeout)
	if err != nil {
		return nil, err
	}
	return &Resp{Status: resp.StatusCode, Header: resp.Header, Body: b}, nil
}

// DoRawH1 sends a hand-written HTTP/1.1 request (HTTP/1.1 sessions only).
func (s *Session) DoRawH1(raw, method string, timeout time.Duration) (*Resp, error) {
	if s.h1 == nil {
		return nil, fmt.Errorf("not an HTTP/1.1 session")
	}
	resp, b, err := s.h1.Do(raw, method, timeout)
	if err != nil {
		return nil, err
	}
	return &Resp{Status: resp.StatusCode, Header: resp.Header, Body: b}, nil
}

// TakeStreamID returns the next unused client stream id of an HTTP/2 session and reserves it.
func (s *Session) TakeStreamID() uint32 {
	id := s.nextID
	s.nextID += 2
	return id
}
