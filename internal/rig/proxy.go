//go:build verif

package rig

import (
	"context"
	"crypto/tls"
	"fmt"
	"io"
	"net"
	"os"
	"path/filepath"
	"sync"
	"time"

	fingerproxy "github.com/wi1dcard/fingerproxy"
	"github.com/wi1dcard/fingerproxy/pkg/certwatcher"
	"github.com/wi1dcard/fingerproxy/pkg/fingerprint"
	"github.com/wi1dcard/fingerproxy/pkg/proxyserver"
)

var quietOnce sync.Once

// Quiet sends the proxy's loggers to /dev/null (or to w).
func Quiet(w io.Writer) {
	if w == nil {
		w = io.Discard
	}
	fingerproxy.ProxyServerLog.SetOutput(w)
	fingerproxy.HTTPServerLog.SetOutput(w)
	fingerproxy.PrometheusLog.SetOutput(w)
	fingerproxy.ReverseProxyLog.SetOutput(w)
	fingerproxy.FingerprintLog.SetOutput(w)
	fingerproxy.CertWatcherLog.SetOutput(w)
	fingerproxy.DefaultLog.SetOutput(w)
	certwatcher.Logger = fingerproxy.CertWatcherLog
	fingerprint.Logger = fingerproxy.FingerprintLog
}

var (
	certDirOnce sync.Once
	certDir     string
)

// CertFiles writes the process-wide RSA pair to a temp dir and returns the paths.
func CertFiles() (cert, key string) {
	certDirOnce.Do(func() {
		base := os.Getenv("VERIF_SCRATCH")
		d, err := os.MkdirTemp(base, "certs-")
		if err != nil {
			panic(err)
		}
		certDir = d
		c := Certs()
		os.WriteFile(filepath.Join(d, "tls.crt"), c.RSACertPEM, 0o600)
		os.WriteFile(filepath.Join(d, "tls.key"), c.RSAKeyPEM, 0o600)
	})
	return filepath.Join(certDir, "tls.crt"), filepath.Join(certDir, "tls.key")
}

// Proxy is a running fingerproxy instance built through the real flag wiring.
type Proxy struct {
	App    *fingerproxy.VerifApp
	Server *proxyserver.Server
	Ln     net.Listener
	Addr   string
	Cancel context.CancelFunc
	Done   chan error // receives the return value of Serve
}

type ProxyOpts struct {
	Args       []string                        // extra CLI flags
	TLSConfig  *tls.Config                     // nil => real cert watcher + defaultTLSConfig on rig.CertFiles()
	Listener   func(net.Listener) net.Listener // optional wrapper (accounting, fault injection)
	ListenAddr string                          // default 127.0.0.1:0
	// Tweak runs after the server has been composed and before Serve.
	Tweak func(*fingerproxy.VerifApp)
}

// StartProxy composes the server like fingerproxy.Run and serves on a loopback listener.
func StartProxy(backendURL string, o ProxyOpts) (*Proxy, error) {
	quietOnce.Do(func() { Quiet(nil) })
	ctx, cancel := context.WithCancel(context.Background())
	args := []string{"-forward-url", backendURL}
	if o.TLSConfig == nil {
		c, k := CertFiles()
		args = append(args, "-cert-filename", c, "-certkey-filename", k)
	}
	args = append(args, o.Args...)
	app, err := fingerproxy.VerifNewApp(ctx, args, o.TLSConfig)
	if err != nil {
		cancel()
		return nil, err
	}
	if o.Tweak != nil {
		o.Tweak(app)
	}
	la := o.ListenAddr
	if la == "" {
		la = "127.0.0.1:0"
	}
	network := "tcp"
	ln, err := net.Listen(network, la)
	if err != nil {
		cancel()
		return nil, err
	}
	p := &Proxy{App: app, Server: app.Server, Addr: ln.Addr().String(), Cancel: cancel, Done: make(chan error, 1)}
	if o.Listener != nil {
		ln = o.Listener(ln)
	}
	p.Ln = ln
	go func() { p.Done <- app.Server.Serve(ln) }()
	return p, nil
}

// Stop cancels the server context and waits for Serve to return.
func (p *Proxy) Stop() error {
	p.Cancel()
	select {
	case err := <-p.Done:
		return err
	case <-time.After(30 * time.Second):
		return fmt.Errorf("Serve did not return within 30s after cancel")
	}
}
