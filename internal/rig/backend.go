package rig

import (
	"crypto/sha256"
	"encoding/hex"
	"io"
	"net"
	"net/http"
	"sync"
	"sync/atomic"
	"time"
)

// TagHeader identifies the client operation that produced a backend record.
const TagHeader = "X-Verif-Tag"

// Record is one request as the backend saw it.
type Record struct {
	Seq           int64
	Tag           string
	Method        string
	RequestURI    string
	Host          string
	Proto         string
	Header        http.Header
	BodyLen       int64
	BodySHA       string
	Body          []byte // kept only when small
	Trailer       http.Header
	RemoteAddr    string
	TE            []string
	ContentLength int64
}

// Plan tells the backend how to answer one request.
type Plan struct {
	Status  int
	Header  http.Header
	Chunks  [][]byte      // body pieces, flushed after each
	Pause   time.Duration // between pieces
	Trailer http.Header   // announced trailers
	Gate    chan struct{} // if non-nil the handler waits for it before answering
	NoBody  bool
}

type Backend struct {
	Ln   net.Listener
	Srv  *http.Server
	URL  string
	Addr string

	Clock *int64

	mu      sync.Mutex
	byTag   map[string][]*Record
	all     []*Record
	waiters map[string][]chan struct{}

	// PlanFor returns the response plan for a request (may be nil => default).
	PlanFor func(r *http.Request, tag string) *Plan
}

func NewBackend(clock *int64) *Backend {
	if clock == nil {
		clock = new(int64)
	}
	b := &Backend{Clock: clock, byTag: map[string][]*Record{}, waiters: map[string][]chan struct{}{}}
	ln, err := net.Listen("tcp", "127.0.0.1:0")
	if err != nil {
		panic(err)
	}
	b.Ln = ln
	b.Addr = ln.Addr().String()
	b.URL = "http://" + b.Addr
	b.Srv = &http.Server{Handler: http.HandlerFunc(b.serve), ReadHeaderTimeout: time.Minute}
	go b.Srv.Serve(ln)
	return b
}

func (b *Backend) Close() { b.Srv.Close() }

func (b *Backend) serve(w http.ResponseWriter, r *http.Request) {
	tag := r.Header.Get(TagHeader)
	rec := &Record{Tag: tag, Method: r.Method, RequestURI: r.RequestURI, Host: r.Host, Proto: r.Proto,
		Header: r.Header.Clone(), RemoteAddr: r.RemoteAddr, TE: append([]string{}, r.TransferEncoding...), ContentLength: r.ContentLength}
	h := sha256.New()
	var keep []byte
	buf := make([]byte, 32*1024)
	for {
		n, err := r.Body.Read(buf)
		if n > 0 {
			h.Write(buf[:n])
			rec.BodyLen += int64(n)
			if rec.BodyLen <= 4096 {
				keep = append(keep, buf[:n]...)
			}
		}
		if err != nil {
			break
		}
	}
	rec.BodySHA = hex.EncodeToString(h.Sum(nil))
	if rec.BodyLen <= 4096 {
		rec.Body = keep
	}
	rec.Trailer = r.Trailer.Clone()
	rec.Seq = atomic.AddInt64(b.Clock, 1)
	b.mu.Lock()
	b.byTag[tag] = append(b.byTag[tag], rec)
	b.all = append(b.all, rec)
	ws := b.waiters[tag]
	delete(b.waiters, tag)
	b.mu.Unlock()
	for _, c := range ws {
		close(c)
	}

	var plan *Plan
	if b.PlanFor != nil {
		plan = b.PlanFor(r, tag)
	}
	if plan == nil {
		w.Header().Set("X-Backend", "1")
		w.WriteHeader(200)
		io.WriteString(w, "backend:"+tag)
		return
	}
	if plan.Gate != nil {
		select {
		case <-plan.Gate:
		case <-r.Context().Done():
			return
		}
	}
	for k, vs := range plan.Header {
		for _, v := range vs {
			w.Header().Add(k, v)
		}
	}
	for k := range plan.Trailer {
		w.Header().Add("Trailer", k)
	}
	st := plan.Status
	if st == 0 {
		st = 200
	}
	w.WriteHeader(st)
	fl, _ := w.(http.Flusher)
	if !plan.NoBody {
		for _, c := range plan.Chunks {
			if _, err := w.Write(c); err != nil {
				return
			}
			if fl != nil {
				fl.Flush()
			}
			if plan.Pause > 0 {
				time.Sleep(plan.Pause)
			}
		}
	}
	for k, vs := range plan.Trailer {
		for _, v := range vs {
			w.Header().Add(k, v)
		}
	}
}

// Records returns the records carrying tag.
func (b *Backend) Records(tag string) []*Record {
	b.mu.Lock()
	defer b.mu.Unlock()
	return append([]*Record{}, b.byTag[tag]...)
}

func (b *Backend) All() []*Record {
	b.mu.Lock()
	defer b.mu.Unlock()
	return append([]*Record{}, b.all...)
}

func (b *Backend) Count() int {
	b.mu.Lock()
	defer b.mu.Unlock()
	return len(b.all)
}

// Wait blocks until a record with tag exists or the watchdog expires.
func (b *Backend) Wait(tag string, timeout time.Duration) (*Record, bool) {
	b.mu.Lock()
	if rs := b.byTag[tag]; len(rs) > 0 {
		b.mu.Unlock()
		return rs[0], true
	}
	c := make(chan struct{})
	b.waiters[tag] = append(b.waiters[tag], c)
	b.mu.Unlock()
	select {
	case <-c:
	case <-time.After(timeout):
		return nil, false
	}
	rs := b.Records(tag)
	if len(rs) == 0 {
		return nil, false
	}
	return rs[0], true
}
