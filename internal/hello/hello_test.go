package hello

import (
	"crypto/tls"
	"math/rand"
	"testing"

	"verif/internal/rig"
)

func rigCerts() []tls.Certificate { c := rig.Certs(); return []tls.Certificate{c.RSA, c.ECDSA} }

func TestCalibrate(t *testing.T) {
	m, mm, first, err := CalibrateJA4("/repo")
	t.Logf("matched=%d mismatched=%d first=%q err=%v", m, mm, first, err)
	if mm != 0 || m < 50 {
		t.Fail()
	}
}

func TestJA3Salesforce(t *testing.T) {
	// worked example of the JA3 README: string -> digest
	h := &Hello{LegacyVersion: 769, Ciphers: []uint16{47, 53, 5, 10, 49161, 49162, 49171, 49172, 50, 56, 19, 4}, Compression: []byte{0},
		Exts: []Ext{{0, SNI("a").Body, true}, SupportedGroups(23, 24, 25), PointFormats(0)}}
	p, err := ParseStream(h.Record())
	if err != nil {
		t.Fatal(err)
	}
	if s := p.JA3String(); s != "769,47-53-5-10-49161-49162-49171-49172-50-56-19-4,0-10-11,23-24-25,0" {
		t.Fatal(s)
	}
	if p.JA3() != "ada70206e40642a3e4461f35503241d5" {
		t.Fatal(p.JA3())
	}
}

func TestAcceptRate(t *testing.T) {
	c := rigCerts()
	cfg := ServerConfig(c...)
	r := rand.New(rand.NewSource(1))
	acc := 0
	for i := 0; i < 3000; i++ {
		h := Random(r)
		if Accepted(cfg, h.Record()) {
			acc++
		}
	}
	t.Logf("accepted %d / 3000", acc)
}

func TestWhyRejected(t *testing.T) {
	c := rigCerts()
	cfg := ServerConfig(c...)
	r := rand.New(rand.NewSource(1))
	why := map[string]int{}
	for i := 0; i < 3000; i++ {
		h := Random(r)
		fc := &feedConn{in: h.Record()}
		srv := tls.Server(fc, cfg)
		err := srv.Handshake()
		if len(fc.out) >= 5 && fc.out[0] == 0x16 {
			continue
		}
		why[err.Error()]++
	}
	for k, v := range why {
		t.Logf("%4d %s", v, k)
	}
}
