// Package hello forges TLS ClientHello records from a structured description,
// parses ClientHello bytes with its own cursor code, and computes the JA3 and
// JA4 reference fingerprints from parsed bytes. It shares no code with
// pkg/ja3, pkg/ja4, tlsx or utls.
package hello

import (
	"crypto/md5"
	"crypto/sha256"
	"encoding/hex"
	"fmt"
	"sort"
	"strconv"
	"strings"
)

// Ext is one extension of a forged hello.
type Ext struct {
	Type uint16 `json:"type"`
	Body []byte `json:"body"`
	// Canonical: the body was produced by this package's builder for the type
	// (well-formed per its RFC). Free-form bodies are only used for types that
	// crypto/tls does not parse.
	Canonical bool `json:"canonical"`
}

// Hello describes a ClientHello.
type Hello struct {
	RecordVersion uint16   `json:"record_version"`
	LegacyVersion uint16   `json:"legacy_version"`
	Random        []byte   `json:"-"`
	SessionID     []byte   `json:"session_id"`
	Ciphers       []uint16 `json:"ciphers"`
	Compression   []byte   `json:"compression"`
	Exts          []Ext    `json:"exts"`
	NoExtBlock    bool     `json:"no_ext_block"` // omit the extensions block entirely
}

func u16(b []byte, v uint16) []byte { return append(b, byte(v>>8), byte(v)) }

// Message returns the handshake message (type, 24-bit length, body).
func (h *Hello) Message() []byte {
	var b []byte
	b = u16(b, h.LegacyVersion)
	r := h.Random
	if len(r) != 32 {
		r = make([]byte, 32)
		copy(r, h.Random)
	}
	b = append(b, r...)
	b = append(b, byte(len(h.SessionID)))
	b = append(b, h.SessionID...)
	b = u16(b, uint16(2*len(h.Ciphers)))
	for _, c := range h.Ciphers {
		b = u16(b, c)
	}
	b = append(b, byte(len(h.Compression)))
	b = append(b, h.Compression...)
	if !h.NoExtBlock {
		var e []byte
		for _, x := range h.Exts {
			e = u16(e, x.Type)
			e = u16(e, uint16(len(x.Body)))
			e = append(e, x.Body...)
		}
		b = u16(b, uint16(len(e)))
		b = append(b, e...)
	}
	m := []byte{1, byte(len(b) >> 16), byte(len(b) >> 8), byte(len(b))}
	return append(m, b...)
}

// Record returns the hello as one TLS record.
func (h *Hello) Record() []byte {
	m := h.Message()
	rv := h.RecordVersion
	if rv == 0 {
		rv = 0x0301
	}
	r := []byte{0x16, byte(rv >> 8), byte(rv), byte(len(m) >> 8), byte(len(m))}
	return append(r, m...)
}

// Records splits the handshake message over several records at the given offsets.
func (h *Hello) Records(cuts ...int) []byte {
	m := h.Message()
	rv := h.RecordVersion
	if rv == 0 {
		rv = 0x0301
	}
	var out []byte
	last := 0
	emit := func(p []byte) {
		out = append(out, 0x16, byte(rv>>8), byte(rv), byte(len(p)>>8), byte(len(p)))
		out = append(out, p...)
	}
	for _, c := range cuts {
		if c > last && c < len(m) {
			emit(m[last:c])
			last = c
		}
	}
	emit(m[last:])
	return out
}

// ---- canonical extension bodies ----

func SNI(host string) Ext {
	var b []byte
	b = u16(b, uint16(3+len(host)))
	b = append(b, 0)
	b = u16(b, uint16(len(host)))
	b = append(b, host...)
	return Ext{0, b, true}
}

func ALPN(protos ...string) Ext {
	var l []byte
	for _, p := range protos {
		l = append(l, byte(len(p)))
		l = append(l, p...)
	}
	return Ext{16, append(u16(nil, uint16(len(l))), l...), true}
}

func list16(t uint16, vs []uint16) Ext {
	var b []byte
	b = u16(b, uint16(2*len(vs)))
	for _, v := range vs {
		b = u16(b, v)
	}
	return Ext{t, b, true}
}

func SupportedGroups(g ...uint16) Ext { return list16(10, g) }
func SigAlgs(a ...uint16) Ext         { return list16(13, a) }
func SigAlgsCert(a ...uint16) Ext     { return list16(50, a) }
func DelegatedCreds(a ...uint16) Ext  { return list16(34, a) }

func PointFormats(p ...byte) Ext {
	return Ext{11, append([]byte{byte(len(p))}, p...), true}
}

func SupportedVersions(v ...uint16) Ext {
	b := []byte{byte(2 * len(v))}
	for _, x := range v {
		b = u16(b, x)
	}
	return Ext{43, b, true}
}

type KeyShareEntry struct {
	Group uint16
	Key   []byte
}

func KeyShare(es ...KeyShareEntry) Ext {
	var l []byte
	for _, e := range es {
		l = u16(l, e.Group)
		l = u16(l, uint16(len(e.Key)))
		l = append(l, e.Key...)
	}
	return Ext{51, append(u16(nil, uint16(len(l))), l...), true}
}

func PSKModes(m ...byte) Ext { return Ext{45, append([]byte{byte(len(m))}, m...), true} }

func PreSharedKey(identity []byte, binderLen int) Ext {
	var ids []byte
	ids = u16(ids, uint16(len(identity)))
	ids = append(ids, identity...)
	ids = append(ids, 0, 0, 0, 1)
	var b []byte
	b = u16(b, uint16(len(ids)))
	b = append(b, ids...)
	bind := append([]byte{byte(binderLen)}, make([]byte, binderLen)...)
	b = u16(b, uint16(len(bind)))
	b = append(b, bind...)
	return Ext{41, b, true}
}

func Padding(n int) Ext          { return Ext{21, make([]byte, n), true} }
func EMS() Ext                   { return Ext{23, nil, true} }
func SessionTicket(t []byte) Ext { return Ext{35, t, true} }
func SCT() Ext                   { return Ext{18, nil, true} }
func StatusRequest() Ext         { return Ext{5, []byte{1, 0, 0, 0, 0}, true} }
func RenegotiationInfo() Ext     { return Ext{0xff01, []byte{0}, true} }
func CompressCert(algs ...uint16) Ext {
	b := []byte{byte(2 * len(algs))}
	for _, a := range algs {
		b = u16(b, a)
	}
	return Ext{27, b, true}
}
func RecordSizeLimit(n uint16) Ext { return Ext{28, u16(nil, n), true} }
func ALPS(protos ...string) Ext {
	e := ALPN(protos...)
	e.Type = 17513
	return e
}
func Grease(t uint16, body []byte) Ext { return Ext{t, body, true} }
func Raw(t uint16, body []byte) Ext    { return Ext{t, body, false} }

var GreaseValues = []uint16{0x0a0a, 0x1a1a, 0x2a2a, 0x3a3a, 0x4a4a, 0x5a5a, 0x6a6a, 0x7a7a, 0x8a8a, 0x9a9a, 0xaaaa, 0xbaba, 0xcaca, 0xdada, 0xeaea, 0xfafa}

func IsGrease(v uint16) bool {
	return v&0x0f0f == 0x0a0a && v>>8 == v&0xff
}

// ---- independent parser ----

type PExt struct {
	Type uint16
	Body []byte
}

type Parsed struct {
	RecordVersion uint16
	RecordLen     int  // declared length of the first record
	MsgLen        int  // declared length of the handshake message
	SpansRecords  bool // the ClientHello message is longer than the first record's payload
	LegacyVersion uint16
	SessionID     []byte
	Ciphers       []uint16
	Compression   []byte
	HasExtBlock   bool
	Exts          []PExt
}

type cur struct {
	b []byte
	p int
}

func (c *cur) need(n int) bool { return c.p+n <= len(c.b) }
func (c *cur) u8() (byte, bool) {
	if !c.need(1) {
		return 0, false
	}
	c.p++
	return c.b[c.p-1], true
}
func (c *cur) u16() (uint16, bool) {
	if !c.need(2) {
		return 0, false
	}
	c.p += 2
	return uint16(c.b[c.p-2])<<8 | uint16(c.b[c.p-1]), true
}
func (c *cur) take(n int) ([]byte, bool) {
	if n < 0 || !c.need(n) {
		return nil, false
	}
	c.p += n
	return c.b[c.p-n : c.p], true
}

// ParseStream parses the ClientHello at the start of a client byte stream,
// reassembling the handshake message across records if necessary.
func ParseStream(stream []byte) (*Parsed, error) {
	p := &Parsed{}
	var msg []byte
	off := 0
	first := true
	for {
		if off+5 > len(stream) {
			return nil, fmt.Errorf("stream ends inside a record header")
		}
		if stream[off] != 0x16 {
			return nil, fmt.Errorf("record type %#x is not handshake", stream[off])
		}
		rl := int(stream[off+3])<<8 | int(stream[off+4])
		if first {
			p.RecordVersion = uint16(stream[off+1])<<8 | uint16(stream[off+2])
			p.RecordLen = rl
			first = false
		}
		if off+5+rl > len(stream) {
			return nil, fmt.Errorf("stream ends inside a record")
		}
		msg = append(msg, stream[off+5:off+5+rl]...)
		off += 5 + rl
		if len(msg) >= 4 {
			ml := int(msg[1])<<16 | int(msg[2])<<8 | int(msg[3])
			p.MsgLen = ml
			if len(msg) >= 4+ml {
				msg = msg[:4+ml]
				break
			}
			p.SpansRecords = true
		} else {
			p.SpansRecords = true
		}
	}
	if msg[0] != 1 {
		return nil, fmt.Errorf("handshake type %d is not ClientHello", msg[0])
	}
	c := &cur{b: msg[4:]}
	var ok bool
	if p.LegacyVersion, ok = c.u16(); !ok {
		return nil, fmt.Errorf("short hello")
	}
	if _, ok = c.take(32); !ok {
		return nil, fmt.Errorf("short random")
	}
	n, ok := c.u8()
	if !ok {
		return nil, fmt.Errorf("short")
	}
	if p.SessionID, ok = c.take(int(n)); !ok {
		return nil, fmt.Errorf("short session id")
	}
	cl, ok := c.u16()
	if !ok || cl%2 != 0 {
		return nil, fmt.Errorf("bad cipher list length")
	}
	cb, ok := c.take(int(cl))
	if !ok {
		return nil, fmt.Errorf("short cipher list")
	}
	for i := 0; i+1 < len(cb); i += 2 {
		p.Ciphers = append(p.Ciphers, uint16(cb[i])<<8|uint16(cb[i+1]))
	}
	n, ok = c.u8()
	if !ok {
		return nil, fmt.Errorf("short")
	}
	if p.Compression, ok = c.take(int(n)); !ok {
		return nil, fmt.Errorf("short compression list")
	}
	if c.p == len(c.b) {
		return p, nil
	}
	el, ok := c.u16()
	if !ok {
		return nil, fmt.Errorf("bad extensions length")
	}
	p.HasExtBlock = true
	eb, ok := c.take(int(el))
	if !ok || c.p != len(c.b) {
		return nil, fmt.Errorf("extensions block does not fill the message")
	}
	e := &cur{b: eb}
	for e.p < len(e.b) {
		t, ok1 := e.u16()
		l, ok2 := e.u16()
		if !ok1 || !ok2 {
			return nil, fmt.Errorf("short extension header")
		}
		body, ok := e.take(int(l))
		if !ok {
			return nil, fmt.Errorf("short extension body")
		}
		p.Exts = append(p.Exts, PExt{t, body})
	}
	return p, nil
}

func (p *Parsed) ext(t uint16) ([]byte, bool) {
	for _, e := range p.Exts {
		if e.Type == t {
			return e.Body, true
		}
	}
	return nil, false
}

func list16Body(b []byte) []uint16 {
	if len(b) < 2 {
		return nil
	}
	n := int(b[0])<<8 | int(b[1])
	b = b[2:]
	if n > len(b) {
		n = len(b)
	}
	var out []uint16
	for i := 0; i+1 < n; i += 2 {
		out = append(out, uint16(b[i])<<8|uint16(b[i+1]))
	}
	return out
}

// ---- JA3 reference ----

// JA3String: version,ciphers,extensions,groups,point formats; decimal; '-' within
// and ',' between fields; GREASE removed from ciphers, extensions and groups.
func (p *Parsed) JA3String() string {
	join := func(vs []uint16, filter bool) string {
		var s []string
		for _, v := range vs {
			if filter && IsGrease(v) {
				continue
			}
			s = append(s, strconv.Itoa(int(v)))
		}
		return strings.Join(s, "-")
	}
	var exts []uint16
	for _, e := range p.Exts {
		exts = append(exts, e.Type)
	}
	var groups []uint16
	if b, ok := p.ext(10); ok {
		groups = list16Body(b)
	}
	var points []string
	if b, ok := p.ext(11); ok && len(b) >= 1 {
		n := int(b[0])
		if n > len(b)-1 {
			n = len(b) - 1
		}
		for _, x := range b[1 : 1+n] {
			points = append(points, strconv.Itoa(int(x)))
		}
	}
	return fmt.Sprintf("%d,%s,%s,%s,%s", p.LegacyVersion, join(p.Ciphers, true), join(exts, true), join(groups, true), strings.Join(points, "-"))
}

func (p *Parsed) JA3() string {
	s := md5.Sum([]byte(p.JA3String()))
	return hex.EncodeToString(s[:])
}

// ---- JA4 reference (FoxIO JA4, TLS over TCP) ----

type JA4Info struct {
	Value         string
	ALPNJudged    bool // false when the first/last ALPN byte is not ASCII (outside the judged domain, DESIGN.md D10)
	A, BRaw, CRaw string
}

func (p *Parsed) JA4() JA4Info {
	var info JA4Info
	// version
	vers := p.LegacyVersion
	if b, ok := p.ext(43); ok && len(b) >= 1 {
		var best uint16
		n := int(b[0])
		vb := b[1:]
		if n > len(vb) {
			n = len(vb)
		}
		for i := 0; i+1 < n; i += 2 {
			v := uint16(vb[i])<<8 | uint16(vb[i+1])
			if !IsGrease(v) && v > best {
				best = v
			}
		}
		vers = best
	}
	vs := "00"
	switch vers {
	case 0x0301:
		vs = "10"
	case 0x0302:
		vs = "11"
	case 0x0303:
		vs = "12"
	case 0x0304:
		vs = "13"
	}
	sni := "i"
	if _, ok := p.ext(0); ok {
		sni = "d"
	}
	var ciphers []uint16
	for _, c := range p.Ciphers {
		if !IsGrease(c) {
			ciphers = append(ciphers, c)
		}
	}
	var exts, extsC []uint16
	for _, e := range p.Exts {
		if IsGrease(e.Type) {
			continue
		}
		exts = append(exts, e.Type)
		if e.Type != 0 && e.Type != 16 {
			extsC = append(extsC, e.Type)
		}
	}
	alpn := "00"
	info.ALPNJudged = true
	if b, ok := p.ext(16); ok && len(b) >= 3 {
		l := int(b[2])
		if l > 0 && 3+l <= len(b) {
			first, last := b[3], b[3+l-1]
			if first > 127 || last > 127 {
				info.ALPNJudged = false
			}
			alpn = string([]byte{first, last})
		}
	}
	info.A = fmt.Sprintf("t%s%s%02d%02d%s", vs, sni, min(len(ciphers), 99), min(len(exts), 99), alpn)
	hex4 := func(vs []uint16) string {
		s := make([]string, len(vs))
		for i, v := range vs {
			s[i] = fmt.Sprintf("%04x", v)
		}
		return strings.Join(s, ",")
	}
	sort.Slice(ciphers, func(i, j int) bool { return ciphers[i] < ciphers[j] })
	sort.Slice(extsC, func(i, j int) bool { return extsC[i] < extsC[j] })
	info.BRaw = hex4(ciphers)
	info.CRaw = hex4(extsC)
	if b, ok := p.ext(13); ok {
		if sa := list16Body(b); len(sa) > 0 {
			info.CRaw += "_" + hex4(sa)
		}
	}
	t12 := func(s string) string {
		h := sha256.Sum256([]byte(s))
		return hex.EncodeToString(h[:])[:12]
	}
	info.Value = info.A + "_" + t12(info.BRaw) + "_" + t12(info.CRaw)
	return info
}
