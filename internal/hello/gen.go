package hello

import (
	"crypto/tls"
	"math/rand"
)

// Suites crypto/tls can negotiate with an RSA or ECDSA certificate.
var tls12Suites = []uint16{0xc02f, 0xc030, 0xc02b, 0xc02c, 0xcca8, 0xcca9, 0xc013, 0xc014, 0xc009, 0xc00a, 0x009c, 0x009d, 0x002f, 0x0035, 0xc012, 0x000a}
var tls13Suites = []uint16{0x1301, 0x1302, 0x1303}
var otherSuites = []uint16{0x00ff, 0xc027, 0xc028, 0x003c, 0x003d, 0x0033, 0x0039, 0x0067, 0x006b, 0xccaa, 0x1304, 0x1305, 0xc0ad}
var knownGroups = []uint16{29, 23, 24, 25, 30, 256, 257, 0x6399, 0x11ec}
var knownSigAlgs = []uint16{0x0403, 0x0804, 0x0401, 0x0503, 0x0805, 0x0501, 0x0806, 0x0601, 0x0201, 0x0203, 0x0807, 0x0808}

// Extension types crypto/tls (server side) does not look at but utls parses with a typed, strict parser.
var UtlsStrictGoIgnored = map[uint16]bool{17: true, 24: true, 27: true, 28: true, 34: true, 13172: true, 17513: true, 30031: true, 30032: true}

// ServerConfig mirrors the proxy's default TLS parameters.
func ServerConfig(certs ...tls.Certificate) *tls.Config {
	return &tls.Config{Certificates: certs, NextProtos: []string{"h2", "http/1.1"}, MinVersion: tls.VersionTLS12, MaxVersion: tls.VersionTLS13}
}

func pickGrease(r *rand.Rand) uint16 { return GreaseValues[r.Intn(len(GreaseValues))] }

func randHost(r *rand.Rand, n int) string {
	b := make([]byte, n)
	for i := range b {
		b[i] = "abcdefghijklmnopqrstuvwxyz0123456789"[r.Intn(36)]
		if i%40 == 39 && i != n-1 {
			b[i] = '.'
		}
	}
	return string(b)
}

// Random generates a ClientHello description. Most results are accepted by
// crypto/tls; the acceptance oracle decides.
func Random(r *rand.Rand) *Hello {
	h := &Hello{RecordVersion: []uint16{0x0301, 0x0301, 0x0303, 0x0300, 0x0302, 0x0304}[r.Intn(6)], LegacyVersion: 0x0303, Compression: []byte{0}}
	h.Random = make([]byte, 32)
	r.Read(h.Random)
	if r.Intn(2) == 0 {
		h.SessionID = make([]byte, []int{32, 32, 16, 1}[r.Intn(4)])
		r.Read(h.SessionID)
	}
	tls13 := r.Intn(5) < 3
	ksGrease := pickGrease(r)
	if r.Intn(12) == 0 {
		h.LegacyVersion = []uint16{0x0301, 0x0302, 0x0304, 0x0300}[r.Intn(4)]
	}
	if !tls13 && r.Intn(15) == 0 {
		h.Compression = []byte{1, 0}
	}
	// ciphers
	n := 1 + r.Intn(24)
	switch r.Intn(12) {
	case 0:
		n = 1
	case 1:
		n = 95 + r.Intn(60) // around and above the JA4 cap
	case 2:
		if r.Intn(3) == 0 {
			n = []int{254, 255, 256, 257, 300, 355, 511, 512, 700}[r.Intn(9)] // counts that do not fit into a byte
		}
	}
	greaseDensity := []int{0, 0, 5, 10, 30}[r.Intn(5)]
	for i := 0; i < n; i++ {
		switch {
		case r.Intn(100) < greaseDensity:
			h.Ciphers = append(h.Ciphers, pickGrease(r))
		case tls13 && r.Intn(4) == 0:
			h.Ciphers = append(h.Ciphers, tls13Suites[r.Intn(3)])
		case r.Intn(3) == 0:
			h.Ciphers = append(h.Ciphers, otherSuites[r.Intn(len(otherSuites))])
		case r.Intn(10) == 0:
			h.Ciphers = append(h.Ciphers, uint16(r.Intn(65536)))
		default:
			h.Ciphers = append(h.Ciphers, tls12Suites[r.Intn(len(tls12Suites))])
		}
	}
	if tls13 && r.Intn(8) != 0 {
		h.Ciphers[r.Intn(len(h.Ciphers))] = tls13Suites[r.Intn(3)]
	}
	if !tls13 && r.Intn(10) != 0 { // something crypto/tls can negotiate without any extension
		h.Ciphers[r.Intn(len(h.Ciphers))] = []uint16{0x009c, 0x009d, 0x002f, 0x0035}[r.Intn(4)]
	}
	if r.Intn(25) == 0 {
		h.NoExtBlock = true
		return h
	}
	var exts []Ext
	used := map[uint16]bool{}
	add := func(e Ext) {
		if used[e.Type] {
			return
		}
		used[e.Type] = true
		exts = append(exts, e)
	}
	if r.Intn(10) < 7 {
		l := 1 + r.Intn(40)
		switch r.Intn(30) {
		case 0:
			l = 253 // SNI list length 0x0100
		case 1:
			l = 252
		case 2:
			l = 250 + r.Intn(10)
		case 3:
			l = 509 + r.Intn(3)
		}
		add(SNI(randHost(r, l)))
	}
	if r.Intn(10) < 7 {
		var protos []string
		for k := 1 + r.Intn(3); k > 0; k-- {
			switch r.Intn(9) {
			case 0, 1, 2:
				protos = append(protos, "h2")
			case 3, 4:
				protos = append(protos, "http/1.1")
			case 5:
				protos = append(protos, string([]byte{byte('a' + r.Intn(26))}))
			case 6:
				b := make([]byte, 1+r.Intn(12))
				for i := range b {
					b[i] = byte(33 + r.Intn(94))
				}
				protos = append(protos, string(b))
			case 7:
				protos = append(protos, "http/1.0")
			case 8:
				b := make([]byte, 1+r.Intn(6))
				r.Read(b)
				protos = append(protos, string(b))
			}
		}
		if r.Intn(8) != 0 { // keep an overlap with the server's protocols most of the time
			i := r.Intn(len(protos) + 1)
			protos = append(protos[:i], append([]string{[]string{"h2", "http/1.1"}[r.Intn(2)]}, protos[i:]...)...)
		}
		add(ALPN(protos...))
	}
	if tls13 || r.Intn(6) == 0 {
		var vs []uint16
		if r.Intn(3) == 0 {
			vs = append(vs, pickGrease(r))
		}
		if tls13 {
			vs = append(vs, 0x0304)
		}
		vs = append(vs, 0x0303)
		if r.Intn(3) == 0 {
			vs = append(vs, 0x0302, 0x0301)
		}
		if r.Intn(4) == 0 {
			r.Shuffle(len(vs), func(i, j int) { vs[i], vs[j] = vs[j], vs[i] })
		}
		if r.Intn(6) == 0 {
			vs = append(vs, pickGrease(r))
		}
		add(SupportedVersions(vs...))
	}
	if r.Intn(10) < 9 {
		var gs []uint16
		if r.Intn(3) == 0 {
			gs = append(gs, pickGrease(r))
		}
		if tls13 {
			gs = append(gs, ksGrease, 29)
		}
		for k := r.Intn(6); k >= 0; k-- {
			gs = append(gs, knownGroups[r.Intn(len(knownGroups))])
		}
		if r.Intn(8) == 0 {
			gs = append(gs, pickGrease(r))
		}
		if r.Intn(3) == 0 {
			r.Shuffle(len(gs), func(i, j int) { gs[i], gs[j] = gs[j], gs[i] })
		}
		add(SupportedGroups(gs...))
	} else if tls13 {
		add(SupportedGroups(ksGrease, 29, 23))
	}
	if r.Intn(10) < 6 {
		add(PointFormats([][]byte{{0}, {0, 1, 2}, {1, 0}, {0, 2}}[r.Intn(4)]...))
	}
	if r.Intn(10) < 9 {
		var sa []uint16
		for k := r.Intn(10); k >= 0; k-- {
			sa = append(sa, knownSigAlgs[r.Intn(len(knownSigAlgs))])
		}
		if r.Intn(10) == 0 {
			sa = append(sa, pickGrease(r))
		}
		add(SigAlgs(sa...))
	}
	if tls13 {
		var ks []KeyShareEntry
		if r.Intn(3) == 0 {
			ks = append(ks, KeyShareEntry{ksGrease, []byte{0}})
		}
		if r.Intn(8) != 0 {
			k := make([]byte, 32)
			r.Read(k)
			ks = append(ks, KeyShareEntry{29, k})
		}
		add(KeyShare(ks...))
		if r.Intn(3) == 0 {
			add(PSKModes(1))
		}
	}
	for _, opt := range []func() Ext{EMS, SCT, StatusRequest, RenegotiationInfo,
		func() Ext { return SessionTicket(make([]byte, r.Intn(3)*50)) },
		func() Ext { return Padding(r.Intn(300)) },
		func() Ext { return CompressCert(2) },
		func() Ext { return RecordSizeLimit(16385) },
		func() Ext { return ALPS("h2") },
		func() Ext { return DelegatedCreds(0x0403, 0x0804) },
		func() Ext { return SigAlgsCert(0x0403, 0x0401) },
	} {
		if r.Intn(4) == 0 {
			add(opt())
		}
	}
	// GREASE extensions
	for k := []int{0, 0, 1, 2, 2, 5}[r.Intn(6)]; k > 0; k-- {
		body := []byte(nil)
		if r.Intn(2) == 0 {
			body = []byte{0}
		}
		add(Grease(pickGrease(r), body))
	}
	// unknown types (crypto/tls ignores them)
	nu := []int{0, 0, 1, 2, 5}[r.Intn(5)]
	if r.Intn(25) == 0 {
		nu = 90 + r.Intn(40) // around and above the JA4 cap
	} else if r.Intn(60) == 0 {
		nu = []int{250, 256, 262, 300, 520}[r.Intn(5)] // counts that do not fit into a byte
	}
	for k := nu; k > 0; k-- {
		t := uint16(60 + r.Intn(60000))
		if r.Intn(4) == 0 {
			t = []uint16{17, 24, 27, 28, 34, 13172, 17513, 30031, 30032}[r.Intn(9)]
		}
		switch t {
		case 65281, 65037:
			continue
		}
		if t < 60 {
			if _, known := map[uint16]bool{17: true, 24: true, 27: true, 28: true, 34: true}[t]; !known {
				continue
			}
		}
		b := make([]byte, []int{0, 1, 2, 3, 8, 33}[r.Intn(6)])
		r.Read(b)
		add(Raw(t, b))
	}
	r.Shuffle(len(exts), func(i, j int) { exts[i], exts[j] = exts[j], exts[i] })
	if tls13 && r.Intn(4) == 0 {
		if !used[45] {
			exts = append(exts, PSKModes(1))
		}
		id := make([]byte, 16+r.Intn(100))
		r.Read(id)
		exts = append(exts, PreSharedKey(id, 32))
	}
	h.Exts = exts
	return h
}

// Variant returns a copy with cipher suites and extensions permuted and GREASE
// values inserted / moved / replaced — transformations JA4 must not notice.
func Variant(h *Hello, r *rand.Rand) *Hello {
	v := *h
	v.Ciphers = append([]uint16{}, h.Ciphers...)
	v.Exts = append([]Ext{}, h.Exts...)
	// ciphers: replace GREASE values, insert one, permute
	for i, c := range v.Ciphers {
		if IsGrease(c) {
			v.Ciphers[i] = pickGrease(r)
		}
	}
	if r.Intn(2) == 0 {
		i := r.Intn(len(v.Ciphers) + 1)
		v.Ciphers = append(v.Ciphers[:i], append([]uint16{pickGrease(r)}, v.Ciphers[i:]...)...)
	}
	r.Shuffle(len(v.Ciphers), func(i, j int) { v.Ciphers[i], v.Ciphers[j] = v.Ciphers[j], v.Ciphers[i] })
	if h.NoExtBlock || len(v.Exts) == 0 {
		return &v
	}
	// extensions: keep pre_shared_key last
	n := len(v.Exts)
	pskLast := v.Exts[n-1].Type == 41
	body := v.Exts
	if pskLast {
		body = v.Exts[:n-1]
	}
	used := map[uint16]bool{}
	for _, e := range v.Exts {
		used[e.Type] = true
	}
	for i, e := range body {
		if IsGrease(e.Type) {
			g := pickGrease(r)
			if !used[g] {
				used[g] = true
				body[i].Type = g
			}
		}
	}
	if r.Intn(2) == 0 {
		g := pickGrease(r)
		if !used[g] {
			body = append(body, Grease(g, nil))
		}
	}
	r.Shuffle(len(body), func(i, j int) { body[i], body[j] = body[j], body[i] })
	// GREASE inside groups / versions / key shares may change value as well
	for i, e := range body {
		if e.Type == 10 && e.Canonical {
			gs := list16Body(e.Body)
			for k, g := range gs {
				if IsGrease(g) {
					gs[k] = pickGrease(r)
				}
			}
			body[i] = SupportedGroups(gs...)
		}
	}
	if pskLast {
		body = append(body, h.Exts[n-1])
	}
	v.Exts = body
	return &v
}

// Class computes input classes used for known-finding matching.
type Class struct {
	SNIListLenLoLtHi bool // tlsx reads the SNI list length from the first byte twice (D9)
	UtlsStrictBody   bool // free-form body under a type utls parses strictly but crypto/tls ignores (D13)
	NonASCIIALPN     bool
}

func Classify(stream []byte, h *Hello) Class {
	var c Class
	if p, err := ParseStream(stream); err == nil {
		if b, ok := p.ext(0); ok && len(b) >= 2 && b[1] < b[0] {
			c.SNIListLenLoLtHi = true
		}
		c.NonASCIIALPN = !p.JA4().ALPNJudged
	}
	if h != nil {
		for _, e := range h.Exts {
			if UtlsStrictGoIgnored[e.Type] && !e.Canonical {
				c.UtlsStrictBody = true
			}
		}
	}
	return c
}
