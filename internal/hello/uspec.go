package hello

import (
	"math/rand"

	utls "github.com/refraction-networking/utls"
)

// utls is used only as a *byte sender*: the reference fingerprints are computed
// from the bytes captured on the client socket, never from these specs.

var presetIDs = []utls.ClientHelloID{
	utls.HelloChrome_58, utls.HelloChrome_62, utls.HelloChrome_70, utls.HelloChrome_72, utls.HelloChrome_83,
	utls.HelloChrome_87, utls.HelloChrome_96, utls.HelloChrome_100, utls.HelloChrome_102, utls.HelloChrome_106_Shuffle,
	utls.HelloChrome_120, utls.HelloFirefox_55, utls.HelloFirefox_56, utls.HelloFirefox_63, utls.HelloFirefox_65,
	utls.HelloFirefox_99, utls.HelloFirefox_102, utls.HelloFirefox_105, utls.HelloFirefox_120, utls.HelloIOS_11_1, utls.HelloIOS_12_1,
	utls.HelloIOS_13, utls.HelloIOS_14, utls.HelloEdge_85, utls.HelloEdge_106, utls.HelloSafari_16_0, utls.Hello360_7_5,
	utls.Hello360_11_0, utls.HelloQQ_11_1,
}

// SpecDesc describes how a spec was made (for witnesses).
type SpecDesc struct {
	Kind   string `json:"kind"` // preset:<name>, custom
	Seed   int64  `json:"seed"`
	ALPN   []string `json:"alpn"`
}

func setALPN(spec *utls.ClientHelloSpec, alpn []string) {
	for _, e := range spec.Extensions {
		if a, ok := e.(*utls.ALPNExtension); ok {
			a.AlpnProtocols = alpn
		}
	}
}

// PresetSpec returns the spec of one of the built-in browser presets.
func PresetSpec(r *rand.Rand, alpn []string) (*utls.ClientHelloSpec, SpecDesc, error) {
	id := presetIDs[r.Intn(len(presetIDs))]
	spec, err := utls.UTLSIdToSpec(id)
	if err != nil {
		return nil, SpecDesc{}, err
	}
	setALPN(&spec, alpn)
	return &spec, SpecDesc{Kind: "preset:" + id.Str(), ALPN: alpn}, nil
}

// CustomSpec builds a random ClientHello spec: random cipher list (with
// GREASE), random subset and order of extensions, unknown extension types,
// TLS 1.2-only or TLS 1.3.
func CustomSpec(r *rand.Rand, alpn []string) (*utls.ClientHelloSpec, SpecDesc) {
	tls13 := r.Intn(3) != 0
	spec := &utls.ClientHelloSpec{CompressionMethods: []byte{0}, TLSVersMin: utls.VersionTLS12, TLSVersMax: utls.VersionTLS12}
	if tls13 {
		spec.TLSVersMax = utls.VersionTLS13
	}
	var cs []uint16
	if r.Intn(2) == 0 {
		cs = append(cs, utls.GREASE_PLACEHOLDER)
	}
	if tls13 {
		t13 := []uint16{0x1301, 0x1302, 0x1303}
		r.Shuffle(3, func(i, j int) { t13[i], t13[j] = t13[j], t13[i] })
		cs = append(cs, t13[:1+r.Intn(3)]...)
	}
	t12 := append([]uint16{}, tls12Suites...)
	r.Shuffle(len(t12), func(i, j int) { t12[i], t12[j] = t12[j], t12[i] })
	cs = append(cs, t12[:1+r.Intn(len(t12))]...)
	// the proxy's certificate is RSA: make sure one RSA-capable suite is offered, and one the server may use
	// for HTTP/2 (RFC 7540 9.2.2 / Appendix A: with only 0x009c or 0xc013 the server negotiates h2 and then,
	// correctly, ends the connection with GOAWAY(INADEQUATE_SECURITY) - seen as a rare "request failed")
	cs = append(cs, []uint16{0xc02f, 0xc030}[r.Intn(2)])
	if r.Intn(2) == 0 {
		cs = append(cs, []uint16{0x009c, 0xc013}[r.Intn(2)])
	}
	for k := r.Intn(4); k > 0; k-- {
		cs = append(cs, otherSuites[r.Intn(len(otherSuites))])
	}
	if r.Intn(3) == 0 {
		r.Shuffle(len(cs), func(i, j int) { cs[i], cs[j] = cs[j], cs[i] })
	}
	spec.CipherSuites = cs

	var ex []utls.TLSExtension
	maybe := func(p int, e utls.TLSExtension) {
		if r.Intn(100) < p {
			ex = append(ex, e)
		}
	}
	maybe(85, &utls.SNIExtension{})
	maybe(60, &utls.ExtendedMasterSecretExtension{})
	maybe(60, &utls.RenegotiationInfoExtension{Renegotiation: utls.RenegotiateOnceAsClient})
	curves := []utls.CurveID{}
	if r.Intn(2) == 0 {
		curves = append(curves, utls.GREASE_PLACEHOLDER)
	}
	curves = append(curves, utls.X25519, utls.CurveP256)
	if r.Intn(2) == 0 {
		curves = append(curves, utls.CurveP384)
	}
	ex = append(ex, &utls.SupportedCurvesExtension{Curves: curves})
	maybe(70, &utls.SupportedPointsExtension{SupportedPoints: []byte{0}})
	maybe(50, &utls.SessionTicketExtension{})
	if len(alpn) > 0 {
		ex = append(ex, &utls.ALPNExtension{AlpnProtocols: alpn})
	}
	maybe(50, &utls.StatusRequestExtension{})
	sa := []utls.SignatureScheme{utls.ECDSAWithP256AndSHA256, utls.PSSWithSHA256, utls.PKCS1WithSHA256, utls.ECDSAWithP384AndSHA384, utls.PSSWithSHA384, utls.PKCS1WithSHA384, utls.PSSWithSHA512, utls.PKCS1WithSHA512}
	if r.Intn(2) == 0 {
		r.Shuffle(len(sa), func(i, j int) { sa[i], sa[j] = sa[j], sa[i] })
	}
	ex = append(ex, &utls.SignatureAlgorithmsExtension{SupportedSignatureAlgorithms: append(sa[:2+r.Intn(len(sa)-2)], utls.PSSWithSHA256, utls.PKCS1WithSHA256)})
	maybe(40, &utls.SCTExtension{})
	if tls13 {
		ks := []utls.KeyShare{}
		if len(curves) > 0 && curves[0] == utls.GREASE_PLACEHOLDER {
			ks = append(ks, utls.KeyShare{Group: utls.CurveID(utls.GREASE_PLACEHOLDER), Data: []byte{0}})
		}
		ks = append(ks, utls.KeyShare{Group: utls.X25519})
		ex = append(ex, &utls.KeyShareExtension{KeyShares: ks})
		ex = append(ex, &utls.PSKKeyExchangeModesExtension{Modes: []uint8{utls.PskModeDHE}})
		vs := []uint16{}
		if r.Intn(2) == 0 {
			vs = append(vs, utls.GREASE_PLACEHOLDER)
		}
		vs = append(vs, utls.VersionTLS13, utls.VersionTLS12)
		ex = append(ex, &utls.SupportedVersionsExtension{Versions: vs})
	}
	maybe(30, &utls.UtlsCompressCertExtension{Algorithms: []utls.CertCompressionAlgo{utls.CertCompressionBrotli}})
	maybe(25, &utls.ApplicationSettingsExtension{SupportedProtocols: []string{"h2"}})
	for k := r.Intn(4); k > 0; k-- {
		id := uint16(2000 + r.Intn(50000))
		switch id {
		case 13172, 17513, 30031, 30032: // types whose bodies utls parses strictly (known finding D13): not by accident
			id++
		}
		d := make([]byte, r.Intn(20))
		r.Read(d)
		ex = append(ex, &utls.GenericExtension{Id: id, Data: d})
	}
	if r.Intn(50) == 0 { // many unknown extensions: around the JA4 count cap
		for k := 0; k < 95; k++ {
			ex = append(ex, &utls.GenericExtension{Id: uint16(3000 + k*7), Data: nil})
		}
	}
	for k := r.Intn(3); k > 0; k-- {
		ex = append(ex, &utls.UtlsGREASEExtension{})
		if k == 2 {
			break // utls supports at most two GREASE extensions
		}
	}
	r.Shuffle(len(ex), func(i, j int) { ex[i], ex[j] = ex[j], ex[i] })
	// two GREASE extensions must not be adjacent-identical: utls handles values itself
	kind := "custom"
	switch r.Intn(12) {
	case 0, 1, 2, 3:
		ex = append(ex, &utls.UtlsPaddingExtension{GetPaddingLen: utls.BoringPaddingStyle})
	case 4, 5:
		// a ClientHello that (nearly) fills one TLS record: message length 16372..16384 bytes, i.e. up to the
		// largest record payload there is (2^14)
		target := 16384 - []int{0, 0, 1, 2, 3, 4, 4, 5, 8, 12}[r.Intn(10)]
		ex = append(ex, &utls.UtlsPaddingExtension{GetPaddingLen: func(unpadded int) (int, bool) {
			if n := target - unpadded - 4; n >= 0 {
				return n, true
			}
			return 0, false
		}})
		kind = "custom-record-filling"
	}
	spec.Extensions = ex
	return spec, SpecDesc{Kind: kind, ALPN: alpn}
}
