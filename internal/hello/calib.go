package hello

import (
	"bufio"
	"fmt"
	"io"
	"os"
	"path/filepath"
	"strconv"
	"strings"

	"github.com/google/gopacket"
	"github.com/google/gopacket/layers"
	"github.com/google/gopacket/pcapgo"
)

// CalibrateJA4 checks the JA4 reference against the FoxIO snapshot values
// shipped in <repo>/pkg/ja4pcap/testdata (third-party expected values): every
// ClientHello that fits into one TCP segment and whose 4-tuple ports identify
// a snapshot entry must produce the snapshot's ja4 value.
func CalibrateJA4(repo string) (matched, mismatched int, firstMismatch string, err error) {
	dir := filepath.Join(repo, "pkg/ja4pcap/testdata")
	pcaps, _ := filepath.Glob(filepath.Join(dir, "pcap", "*"))
	for _, pc := range pcaps {
		snap := filepath.Join(dir, "snapshots", "ja4__insta@"+filepath.Base(pc)+".snap")
		want, e := readSnap(snap)
		if e != nil {
			continue
		}
		f, e := os.Open(pc)
		if e != nil {
			continue
		}
		var src gopacket.PacketDataSource
		var lt layers.LinkType
		if r, e := pcapgo.NewReader(f); e == nil {
			src, lt = r, r.LinkType()
		} else {
			f.Seek(0, io.SeekStart)
			r, e := pcapgo.NewNgReader(f, pcapgo.DefaultNgReaderOptions)
			if e != nil {
				f.Close()
				continue
			}
			src, lt = r, r.LinkType()
		}
		ps := gopacket.NewPacketSource(src, lt)
		seen := map[string]bool{}
		for p := range ps.Packets() {
			tl := p.Layer(layers.LayerTypeTCP)
			if tl == nil {
				continue
			}
			tcp := tl.(*layers.TCP)
			pl := tcp.LayerPayload()
			if len(pl) < 10 || pl[0] != 0x16 || pl[5] != 1 {
				continue
			}
			parsed, e := ParseStream(pl)
			if e != nil || parsed.SpansRecords {
				continue
			}
			key := fmt.Sprintf("%d>%d", tcp.SrcPort, tcp.DstPort)
			w, ok := want[key]
			if !ok || seen[key] {
				continue
			}
			seen[key] = true
			got := parsed.JA4()
			if !got.ALPNJudged {
				continue
			}
			if got.Value == w {
				matched++
			} else {
				mismatched++
				if firstMismatch == "" {
					firstMismatch = fmt.Sprintf("%s %s: reference %s, FoxIO snapshot %s", filepath.Base(pc), key, got.Value, w)
				}
			}
		}
		f.Close()
	}
	return
}

func readSnap(path string) (map[string]string, error) {
	f, err := os.Open(path)
	if err != nil {
		return nil, err
	}
	defer f.Close()
	out := map[string]string{}
	dup := map[string]bool{}
	var sp, dp int
	var tr string
	sc := bufio.NewScanner(f)
	sc.Buffer(make([]byte, 1<<20), 1<<20)
	for sc.Scan() {
		l := strings.TrimSpace(sc.Text())
		l = strings.TrimPrefix(l, "- ")
		k, v, ok := strings.Cut(l, ": ")
		if !ok {
			continue
		}
		switch k {
		case "stream":
			sp, dp, tr = 0, 0, ""
		case "transport":
			tr = v
		case "src_port":
			sp, _ = strconv.Atoi(v)
		case "dst_port":
			dp, _ = strconv.Atoi(v)
		case "ja4":
			if tr == "tcp" && sp != 0 {
				key := fmt.Sprintf("%d>%d", sp, dp)
				if _, exists := out[key]; exists {
					dup[key] = true
				}
				out[key] = v
			}
		}
	}
	for k := range dup {
		delete(out, k) // ambiguous port pair
	}
	return out, nil
}
