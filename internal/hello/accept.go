package hello

import (
	"crypto/tls"
	"io"
	"net"
	"time"
)

// feedConn hands a fixed byte string to a TLS server and records what it
// writes. When the input is exhausted Read reports EOF: a server that wants
// more bytes than the client stream contains is thereby "starved", not timed out.
type feedConn struct {
	in  []byte
	out []byte
}

func (c *feedConn) Read(b []byte) (int, error) {
	if len(c.in) == 0 {
		return 0, io.EOF
	}
	n := copy(b, c.in)
	c.in = c.in[n:]
	return n, nil
}
func (c *feedConn) Write(b []byte) (int, error)        { c.out = append(c.out, b...); return len(b), nil }
func (c *feedConn) Close() error                       { return nil }
func (c *feedConn) LocalAddr() net.Addr                { return &net.TCPAddr{} }
func (c *feedConn) RemoteAddr() net.Addr               { return &net.TCPAddr{} }
func (c *feedConn) SetDeadline(t time.Time) error      { return nil }
func (c *feedConn) SetReadDeadline(t time.Time) error  { return nil }
func (c *feedConn) SetWriteDeadline(t time.Time) error { return nil }

// Accepted reports whether crypto/tls, configured like the proxy, accepts the
// ClientHello that starts the client stream: the first record the server
// writes back is a handshake record (ServerHello / HelloRetryRequest) rather
// than an alert. This is the domain predicate of C01/C02 ("ClientHellos the
// TLS stack accepts").
func Accepted(cfg *tls.Config, stream []byte) bool {
	fc := &feedConn{in: stream}
	srv := tls.Server(fc, cfg)
	srv.Handshake() // fails at the latest when the input is exhausted
	return len(fc.out) >= 5 && fc.out[0] == 0x16
}
