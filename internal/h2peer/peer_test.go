package h2peer

import (
	"net"
	"net/http"
	"testing"
	"time"

	fork "github.com/wi1dcard/fingerproxy/pkg/http2"
	"golang.org/x/net/http2"
)

func TestSmoke(t *testing.T) {
	c, s := net.Pipe()
	srv := &fork.Server{}
	done := make(chan struct{})
	go func() {
		srv.ServeConn(s, &fork.ServeConnOpts{Handler: http.HandlerFunc(func(w http.ResponseWriter, r *http.Request) {
			w.Header().Set("x-a", "b")
			w.Write([]byte("hello"))
		})})
		close(done)
	}()
	p := New(c, nil)
	if err := p.Preface(); err != nil {
		t.Fatal(err)
	}
	if err := p.Request(1, true, GetFields("example.com", "/")...); err != nil {
		t.Fatal(err)
	}
	r, ok := p.WaitResponse(1, 5*time.Second)
	if !ok || r.Status != "200" || string(r.Body) != "hello" {
		t.Fatalf("%+v %v", r, ok)
	}
	if _, err := p.Fence(5 * time.Second); err != nil {
		t.Fatal(err)
	}
	// connection error: DATA on idle stream
	p.Do(func(fr *http2.Framer) error { return fr.WriteData(99, false, []byte("x")) })
	i, ok := p.WaitFor(0, 5*time.Second, func(e Event) bool { return e.Is(http2.FrameGoAway) })
	if !ok {
		t.Fatal("no goaway")
	}
	t.Log(p.Events()[i])
	p.Close()
	<-done
}
