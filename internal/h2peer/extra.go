package h2peer

// Helpers added for C13 (kept out of peer.go so that its API stays as it is):
// a stateless HPACK literal encoder, a fence that returns as soon as the peer
// has sent a GOAWAY carrying an error code, and a net.Conn wrapper whose read
// side can be held (to keep the server's writer busy so that frames it wants
// to send stay queued: "reset in flight").

import (
	"encoding/binary"
	"net"
	"sync"
	"sync/atomic"
	"time"

	"golang.org/x/net/http2"
	"golang.org/x/net/http2/hpack"
)

func appendVarInt(dst []byte, n byte, i uint64) []byte {
	k := uint64((1 << n) - 1)
	if i < k {
		return append(dst, byte(i))
	}
	dst = append(dst, byte(k))
	i -= k
	for ; i >= 128; i >>= 7 {
		dst = append(dst, byte(0x80|(i&0x7f)))
	}
	return append(dst, byte(i))
}

// LiteralBlock encodes fields as "literal header field without indexing — new
// name" (RFC 7541 §6.2.2), no Huffman coding. The encoding is stateless: it
// neither reads nor changes the dynamic table, so a block can be dropped,
// repeated or reordered without desynchronising the connection.
func LiteralBlock(fields []hpack.HeaderField) []byte {
	var b []byte
	for _, f := range fields {
		b = append(b, 0x00)
		b = appendVarInt(b, 7, uint64(len(f.Name)))
		b = append(b, f.Name...)
		b = appendVarInt(b, 7, uint64(len(f.Value)))
		b = append(b, f.Value...)
	}
	return b
}

// FenceResult says how a FenceOrGoAway ended.
type FenceResult int

const (
	FenceAck     FenceResult = iota // the PING ACK arrived: everything before it is in the log
	FenceGoAway                     // a GOAWAY with an error code arrived (the peer no longer answers PINGs)
	FenceEOF                        // the connection ended
	FenceTimeout                    // watchdog
	FenceWriteErr
)

func (r FenceResult) String() string {
	return [...]string{"ack", "goaway", "eof", "timeout", "write-error"}[r]
}

var fenceCounter uint64

// IsFencePing reports whether e is the ACK of a PING sent by Fence/FenceOrGoAway.
func IsFencePing(e Event) bool {
	return e.Is(http2.FramePing) && e.Flags&http2.FlagPingAck != 0 && (e.PingData[0] == 0xfe || e.PingData[0] == 0xfd)
}

// FenceOrGoAway is Fence, except that it also returns when a GOAWAY with an
// error code shows up at or after log index from (upstream Go stops writing
// anything, including PING ACKs, after such a GOAWAY and closes only a second
// later). The returned index is that of the ACK / GOAWAY / EOF event.
func (p *Peer) FenceOrGoAway(from int, timeout time.Duration) (int, FenceResult) {
	n := atomic.AddUint64(&fenceCounter, 1)
	var d [8]byte
	binary.BigEndian.PutUint64(d[:], 0xfd00000000000000|(n&0x00ffffffffffffff))
	werr := p.Do(func(fr *http2.Framer) error { return fr.WritePing(false, d) })
	res := FenceTimeout
	i, ok := p.WaitFor(from, timeout, func(e Event) bool {
		switch {
		case e.EOF:
			res = FenceEOF
			return true
		case e.Is(http2.FrameGoAway) && e.ErrCode != http2.ErrCodeNo:
			res = FenceGoAway
			return true
		case e.Is(http2.FramePing) && e.Flags&http2.FlagPingAck != 0 && e.PingData == d:
			res = FenceAck
			return true
		}
		return false
	})
	if !ok {
		if p.Ended() {
			return p.Len() - 1, FenceEOF
		}
		if werr != nil {
			return -1, FenceWriteErr
		}
		return -1, FenceTimeout
	}
	return i, res
}

// HoldConn wraps the harness side of the connection. While held, Read blocks
// before touching the underlying connection, so a synchronous pipe makes the
// remote writer block: the remote serve loop keeps processing what we send but
// everything it wants to write stays queued until Release.
type HoldConn struct {
	net.Conn
	mu   sync.Mutex
	cond *sync.Cond
	held bool
	dead bool
}

func NewHoldConn(c net.Conn) *HoldConn {
	h := &HoldConn{Conn: c}
	h.cond = sync.NewCond(&h.mu)
	return h
}

func (h *HoldConn) Hold() {
	h.mu.Lock()
	h.held = true
	h.mu.Unlock()
}

func (h *HoldConn) Release() {
	h.mu.Lock()
	h.held = false
	h.cond.Broadcast()
	h.mu.Unlock()
}

func (h *HoldConn) Read(b []byte) (int, error) {
	h.mu.Lock()
	for h.held && !h.dead {
		h.cond.Wait()
	}
	h.mu.Unlock()
	return h.Conn.Read(b)
}

func (h *HoldConn) Close() error {
	h.mu.Lock()
	h.dead = true
	h.held = false
	h.cond.Broadcast()
	h.mu.Unlock()
	return h.Conn.Close()
}
