package h2peer

// Flow-control ledger (property C12).
//
// The ledger is kept by the peer about the implementation under test. It is a
// merge, in logical-clock order, of
//
//   * what the peer SENT (window updates, settings, data, resets) — every send
//     goes through a Ledger method that stamps the shared clock BEFORE the
//     bytes are written, and
//   * what the peer RECEIVED (the Peer's event log; stamped after the frame
//     was read).
//
// For the direction implementation -> peer it maintains an upper bound of what
// a correct sender may send:
//
//   stream allowance = initial window + Σ WINDOW_UPDATE increments the peer sent
//                      on the stream − Σ flow-controlled bytes received on it
//   connection allowance = 65535 + Σ stream-0 increments − Σ flow-controlled bytes
//
// "initial window" is the largest SETTINGS_INITIAL_WINDOW_SIZE value among the
// last one the implementation acknowledged and all that the peer has sent
// since: an increase counts from the moment the peer sends it (a correct
// sender cannot use it earlier), a decrease from the moment the
// implementation's SETTINGS ACK is observed (the latest moment a correct sender
// may still use the old value). SETTINGS_MAX_FRAME_SIZE likewise. Because a
// grant is stamped before it is written and a DATA frame after it was read, a
// DATA frame that precedes a grant in clock order was sent without it.
//
// For the direction peer -> implementation it tracks what the implementation
// has advertised (its SETTINGS_INITIAL_WINDOW_SIZE, its WINDOW_UPDATEs), so
// that a script can send exactly up to the window, and how much credit the
// implementation has returned.

import (
	"fmt"
	"sync"
	"time"

	"golang.org/x/net/http2"
	"golang.org/x/net/http2/hpack"
)

type Role int

const (
	AsClient Role = iota // the peer is the client, the implementation a server
	AsServer             // the peer is the server, the implementation a client
)

const MaxWindow = 1<<31 - 1

// LViolation is one refutation found by the ledger monitors.
type LViolation struct {
	Kind     string `json:"kind"`
	StreamID uint32 `json:"stream"`
	EventIdx int    `json:"event_index"`
	Msg      string `json:"msg"`
}

// LStream is the ledger's view of one stream.
type LStream struct {
	ID uint32

	// implementation -> peer
	Grants        int64           // Σ increments the peer sent on this stream
	Recv          int64           // Σ flow-controlled bytes received (payload + padding)
	Got           int64           // payload bytes received
	Frames        int64           // DATA frames received
	Ended         bool            // END_STREAM received (DATA or HEADERS)
	ImplReset     bool            // RST_STREAM received
	ImplResetCode http2.ErrCode   // code of the first RST_STREAM
	Resets        []http2.ErrCode // codes of all RST_STREAM frames received (first 16)
	HasExpect     bool
	Key           uint64
	Total         int64
	Headers       []hpack.HeaderField // first complete header block received on the stream
	HeaderBlocks  int
	iwEpochSeen   int // number of acknowledged window decreases when the last DATA frame arrived
	mfsEpochSeen  int

	// peer -> implementation
	PeerReset  bool
	PeerEnded  bool
	Sent       int64 // Σ flow-controlled bytes the peer sent
	ImplGrants int64 // Σ increments received on this stream
}

type lopKind uint8

const (
	opWU lopKind = iota
	opSettings
	opOpen
	opRST
	opData
	opPing
)

type lop struct {
	seq    int64
	kind   lopKind
	sid    uint32
	n      int64
	hasIW  bool
	iw     int64
	hasMFS bool
	mfs    int64
	end    bool
}

type pendSettings struct {
	hasIW, hasMFS bool
}

// LStats are the monitor's own observation counters.
type LStats struct {
	DataFrames, DataBytes, FlowBytes int64
	LedgerChecks                     int64 // allowance comparisons made (3 per non-empty DATA frame, 1 per other frame)
	FramesSeen                       int64
	GrantsSent, GrantBytes           int64
	SettingsSent, SettingsAcked      int64
	NegativeEpisodes                 int64 // streams whose allowance was below zero when a decrease became effective
	ImplWU, ImplWUBytes              int64
	PeerDataFrames, PeerDataBytes    int64
	PaddedRecv, PaddedSent           int64
	MaxFrameSeen                     int64
	ContentBytesChecked              int64
	AcksCoalesced                    int64
}

type Ledger struct {
	P    *Peer
	Role Role

	// DropData releases DATA payloads from the Peer's log once judged.
	DropData bool

	// ExpectFromHeaders, when set, derives the body expectation of a stream
	// from the first header block the implementation sends on it (server role:
	// the request headers name the body the client was given).
	ExpectFromHeaders func(h []hpack.HeaderField) (key uint64, total int64, ok bool)

	smu sync.Mutex // serialises peer sends: clock order == wire order

	mu      sync.Mutex
	ops     []lop
	opNext  int
	evNext  int
	iw      []int64 // [0] = last acknowledged value, then the unacknowledged ones in order
	mfs     []int64
	pend    []pendSettings
	conn    int64 // connection allowance (implementation -> peer)
	all     map[uint32]*LStream
	live    map[uint32]*LStream
	viol    []LViolation
	stats   LStats
	goAway  bool
	goCode  http2.ErrCode
	goDebug string
	eof     bool

	implIW       int64 // the implementation's SETTINGS_INITIAL_WINDOW_SIZE
	implMFS      int64
	implSettings int   // non-ACK SETTINGS frames received
	connSend     int64 // what the peer may still send on the connection
	implWU0      int64 // Σ stream-0 increments received
	connSent     int64 // Σ flow-controlled bytes the peer sent
	lastStream   uint32
	pingAcks     map[[8]byte]bool

	// values in force before each acknowledged decrease (index = epoch-1)
	iwBefore  []int64
	mfsBefore []int64
}

func NewLedger(p *Peer, role Role) *Ledger {
	return &Ledger{P: p, Role: role, DropData: true,
		iw: []int64{65535}, mfs: []int64{16384}, conn: 65535,
		all: map[uint32]*LStream{}, live: map[uint32]*LStream{},
		implIW: 65535, implMFS: 16384, connSend: 65535, pingAcks: map[[8]byte]bool{}}
}

func maxOf(v []int64) int64 {
	m := v[0]
	for _, x := range v[1:] {
		if x > m {
			m = x
		}
	}
	return m
}

// ---------------------------------------------------------------- peer sends

func (l *Ledger) record(o lop) {
	// called with smu held
	o.seq = l.P.Tick()
	l.mu.Lock()
	l.ops = append(l.ops, o)
	l.mu.Unlock()
}

// WindowUpdate grants inc bytes on stream sid (0 = connection).
func (l *Ledger) WindowUpdate(sid uint32, inc uint32) error {
	l.smu.Lock()
	defer l.smu.Unlock()
	l.record(lop{kind: opWU, sid: sid, n: int64(inc)})
	return l.P.Do(func(fr *http2.Framer) error { return fr.WriteWindowUpdate(sid, inc) })
}

// Settings sends a SETTINGS frame.
func (l *Ledger) Settings(ss ...http2.Setting) error {
	l.smu.Lock()
	defer l.smu.Unlock()
	o := lop{kind: opSettings}
	for _, s := range ss {
		switch s.ID {
		case http2.SettingInitialWindowSize:
			o.hasIW, o.iw = true, int64(s.Val)
		case http2.SettingMaxFrameSize:
			o.hasMFS, o.mfs = true, int64(s.Val)
		}
	}
	l.record(o)
	return l.P.Do(func(fr *http2.Framer) error { return fr.WriteSettings(ss...) })
}

// ClientPreface writes the client preface followed by a SETTINGS frame.
func (l *Ledger) ClientPreface(ss ...http2.Setting) error {
	if err := l.P.WriteRaw([]byte(ClientPreface)); err != nil {
		return err
	}
	return l.Settings(ss...)
}

func (l *Ledger) SettingsAck() error {
	l.smu.Lock()
	defer l.smu.Unlock()
	return l.P.Do(func(fr *http2.Framer) error { return fr.WriteSettingsAck() })
}

// Headers writes one complete header block. As a client this opens the stream.
func (l *Ledger) Headers(sid uint32, endStream bool, fields ...hpack.HeaderField) error {
	l.smu.Lock()
	defer l.smu.Unlock()
	block := l.P.Encode(fields)
	l.record(lop{kind: opOpen, sid: sid, end: endStream})
	return l.P.Do(func(fr *http2.Framer) error {
		return fr.WriteHeaders(http2.HeadersFrameParam{StreamID: sid, BlockFragment: block, EndStream: endStream, EndHeaders: true})
	})
}

// Reset sends RST_STREAM.
func (l *Ledger) Reset(sid uint32, code http2.ErrCode) error {
	l.smu.Lock()
	defer l.smu.Unlock()
	l.record(lop{kind: opRST, sid: sid})
	return l.P.Do(func(fr *http2.Framer) error { return fr.WriteRSTStream(sid, code) })
}

// Data sends one DATA frame. pad < 0: not padded; pad in 0..255: PADDED flag
// with that many padding octets (flow-controlled size len(data)+1+pad).
func (l *Ledger) Data(sid uint32, endStream bool, data []byte, pad int) error {
	l.smu.Lock()
	defer l.smu.Unlock()
	n := int64(len(data))
	var raw []byte
	if pad >= 0 {
		n += 1 + int64(pad)
		payload := make([]byte, 0, n)
		payload = append(payload, byte(pad))
		payload = append(payload, data...)
		payload = append(payload, make([]byte, pad)...)
		var fl uint8 = 0x8
		if endStream {
			fl |= 0x1
		}
		raw = RawFrame(0x0, fl, sid, payload)
	}
	// what the peer has sent counts at once (it only ever lowers what the peer may still send)
	l.mu.Lock()
	st := l.stream(sid)
	st.Sent += n
	l.connSent += n
	l.connSend -= n
	l.stats.PeerDataFrames++
	l.stats.PeerDataBytes += n
	if pad >= 0 {
		l.stats.PaddedSent++
	}
	if endStream {
		st.PeerEnded = true
	}
	l.mu.Unlock()
	l.P.Tick()
	if raw != nil {
		return l.P.WriteRaw(raw)
	}
	return l.P.Do(func(fr *http2.Framer) error { return fr.WriteData(sid, endStream, data) })
}

// Expect declares the body the implementation is going to send on sid:
// Total bytes produced by FillBody(key, …).
func (l *Ledger) Expect(sid uint32, key uint64, total int64) {
	l.mu.Lock()
	defer l.mu.Unlock()
	s := l.stream(sid)
	s.HasExpect, s.Key, s.Total = true, key, total
}

// ---------------------------------------------------------------- bodies

// FillBody writes the bytes [off, off+len(b)) of the body identified by key.
func FillBody(key uint64, off int64, b []byte) {
	k := uint32(key*2654435761 + 0x9e3779b9)
	for i := range b {
		x := (uint32(off) + uint32(i)) * 2246822519
		x ^= k
		x ^= x >> 15
		x *= 2654435761
		b[i] = byte(x >> 24)
	}
}

// CheckBody reports the first offset at which b differs from the body of key at off (-1 = equal).
func CheckBody(key uint64, off int64, b []byte) int {
	k := uint32(key*2654435761 + 0x9e3779b9)
	for i := range b {
		x := (uint32(off) + uint32(i)) * 2246822519
		x ^= k
		x ^= x >> 15
		x *= 2654435761
		if b[i] != byte(x>>24) {
			return i
		}
	}
	return -1
}

// ---------------------------------------------------------------- merge

func (l *Ledger) stream(sid uint32) *LStream {
	s := l.all[sid]
	if s == nil {
		s = &LStream{ID: sid, iwEpochSeen: len(l.iwBefore), mfsEpochSeen: len(l.mfsBefore)}
		l.all[sid] = s
		l.live[sid] = s
		if sid > l.lastStream {
			l.lastStream = sid
		}
	}
	return s
}

func (l *Ledger) violate(kind string, sid uint32, idx int, format string, a ...any) {
	if len(l.viol) < 64 {
		l.viol = append(l.viol, LViolation{Kind: kind, StreamID: sid, EventIdx: idx, Msg: fmt.Sprintf(format, a...)})
	}
}

func (l *Ledger) applyOp(o lop) {
	switch o.kind {
	case opWU:
		l.stats.GrantsSent++
		l.stats.GrantBytes += o.n
		if o.sid == 0 {
			l.conn += o.n
		} else {
			l.stream(o.sid).Grants += o.n
		}
	case opSettings:
		l.stats.SettingsSent++
		if o.hasIW {
			l.iw = append(l.iw, o.iw)
		}
		if o.hasMFS {
			l.mfs = append(l.mfs, o.mfs)
		}
		l.pend = append(l.pend, pendSettings{o.hasIW, o.hasMFS})
	case opOpen:
		s := l.stream(o.sid)
		if o.end {
			s.PeerEnded = true
		}
	case opRST:
		s := l.stream(o.sid)
		s.PeerReset = true
		delete(l.live, o.sid)
	}
}

func (l *Ledger) ackOne(idx int) {
	if len(l.pend) == 0 {
		// the ACK of nothing the ledger knows of: not a flow-control matter
		return
	}
	p := l.pend[0]
	l.pend = l.pend[1:]
	l.stats.SettingsAcked++
	if p.hasIW {
		before := maxOf(l.iw)
		l.iw = l.iw[1:]
		after := maxOf(l.iw)
		if after < before {
			l.iwBefore = append(l.iwBefore, before)
			for _, s := range l.live {
				if after+s.Grants-s.Recv < 0 {
					l.stats.NegativeEpisodes++
				}
			}
		}
	}
	if p.hasMFS {
		before := maxOf(l.mfs)
		l.mfs = l.mfs[1:]
		if maxOf(l.mfs) < before {
			l.mfsBefore = append(l.mfsBefore, before)
		}
	}
}

// collapse treats every SETTINGS frame the peer sent so far as applied: called
// after a PING round trip that was started after them (frames are processed in
// order, so the implementation has applied them when it answers the PING).
func (l *Ledger) collapse() {
	if len(l.pend) > 0 {
		l.stats.AcksCoalesced += int64(len(l.pend))
	}
	for len(l.pend) > 0 {
		l.ackOne(-1)
	}
}

func (l *Ledger) applyEvent(idx int, e *Event) {
	if e.EOF {
		l.eof = true
		return
	}
	l.stats.FramesSeen++
	effMFS := maxOf(l.mfs)
	l.stats.LedgerChecks++
	if int64(e.Length) > effMFS {
		kind := "max-frame-size"
		if e.Type == http2.FrameData {
			// The first DATA frame of a stream after a decrease was acknowledged,
			// still within the old limit: the frame was sized before the SETTINGS
			// were applied and written after the ACK (classified separately).
			if s := l.all[e.StreamID]; s != nil && s.mfsEpochSeen < len(l.mfsBefore) && int64(e.Length) <= maxOf(l.mfsBefore[s.mfsEpochSeen:]) {
				kind = "max-frame-size-decrease-race"
			}
		}
		l.violate(kind, e.StreamID, idx, "%v frame of %d bytes on stream %d exceeds the peer's SETTINGS_MAX_FRAME_SIZE %d", e.Type, e.Length, e.StreamID, effMFS)
	}
	if int64(e.Length) > l.stats.MaxFrameSeen {
		l.stats.MaxFrameSeen = int64(e.Length)
	}
	switch e.Type {
	case http2.FrameData:
		s := l.all[e.StreamID]
		if s == nil {
			if e.StreamID > l.lastStream {
				l.violate("data-unknown-stream", e.StreamID, idx, "DATA on stream %d which was never opened", e.StreamID)
			}
			s = l.stream(e.StreamID) // (a stream dropped with Forget starts over with a full window)
		}
		n := int64(e.Length)
		l.stats.DataFrames++
		l.stats.DataBytes += int64(len(e.Data))
		l.stats.FlowBytes += n
		if e.PadLen > 0 {
			l.stats.PaddedRecv++
		}
		effIW := maxOf(l.iw)
		allow := effIW + s.Grants - s.Recv
		if n > 0 {
			l.stats.LedgerChecks += 2
			if n > allow {
				kind := "stream-window"
				if s.iwEpochSeen < len(l.iwBefore) && n <= maxOf(l.iwBefore[s.iwEpochSeen:])+s.Grants-s.Recv {
					kind = "stream-window-decrease-race"
				}
				l.violate(kind, e.StreamID, idx, "DATA of %d flow-controlled bytes on stream %d but the stream allowance is %d (initial window %d + granted %d - received %d)", n, e.StreamID, allow, effIW, s.Grants, s.Recv)
			}
			if n > l.conn {
				l.violate("conn-window", e.StreamID, idx, "DATA of %d flow-controlled bytes on stream %d but the connection allowance is %d", n, e.StreamID, l.conn)
			}
		}
		s.Recv += n
		l.conn -= n
		s.Frames++
		s.iwEpochSeen, s.mfsEpochSeen = len(l.iwBefore), len(l.mfsBefore)
		if s.Ended {
			l.violate("data-after-end-stream", e.StreamID, idx, "DATA (len %d, END_STREAM=%v) on stream %d after END_STREAM", len(e.Data), e.EndStream(), e.StreamID)
		}
		if s.HasExpect {
			if s.Got+int64(len(e.Data)) > s.Total {
				l.violate("body-too-long", e.StreamID, idx, "stream %d: %d body bytes received, the body has only %d", e.StreamID, s.Got+int64(len(e.Data)), s.Total)
			} else if d := CheckBody(s.Key, s.Got, e.Data); d >= 0 {
				l.violate("body-content", e.StreamID, idx, "stream %d: body byte at offset %d differs from what was written", e.StreamID, s.Got+int64(d))
			}
			l.stats.ContentBytesChecked += int64(len(e.Data))
		}
		s.Got += int64(len(e.Data))
		if e.EndStream() {
			if s.HasExpect && s.Got < s.Total && !s.Ended {
				l.violate("body-truncated", e.StreamID, idx, "stream %d: END_STREAM after %d of %d body bytes", e.StreamID, s.Got, s.Total)
			}
			s.Ended = true
		}
	case http2.FrameHeaders, http2.FrameContinuation:
		s := l.stream(e.StreamID)
		if e.Headers != nil {
			s.HeaderBlocks++
			if s.Headers == nil {
				s.Headers = e.Headers
				if l.ExpectFromHeaders != nil && !s.HasExpect {
					if k, t, ok := l.ExpectFromHeaders(e.Headers); ok {
						s.HasExpect, s.Key, s.Total = true, k, t
					}
				}
			}
		}
		if e.Type == http2.FrameHeaders && e.EndStream() {
			if s.Ended {
				l.violate("end-stream-twice", e.StreamID, idx, "stream %d: second END_STREAM (HEADERS)", e.StreamID)
			} else if s.HasExpect && s.Got < s.Total {
				l.violate("body-truncated", e.StreamID, idx, "stream %d: END_STREAM (HEADERS) after %d of %d body bytes", e.StreamID, s.Got, s.Total)
			}
			s.Ended = true
		}
	case http2.FrameRSTStream:
		s := l.stream(e.StreamID)
		if !s.ImplReset { // the first RST_STREAM is the implementation's verdict on the stream
			s.ImplReset, s.ImplResetCode = true, e.ErrCode
		}
		if len(s.Resets) < 16 {
			s.Resets = append(s.Resets[:len(s.Resets):len(s.Resets)], e.ErrCode)
		}
		delete(l.live, e.StreamID)
	case http2.FrameSettings:
		if e.Ack() {
			l.ackOne(idx)
		} else {
			l.implSettings++
			for _, st := range e.Settings {
				switch st.ID {
				case http2.SettingInitialWindowSize:
					l.implIW = int64(st.Val)
				case http2.SettingMaxFrameSize:
					l.implMFS = int64(st.Val)
				}
			}
		}
	case http2.FrameWindowUpdate:
		l.stats.ImplWU++
		l.stats.ImplWUBytes += int64(e.Increment)
		if e.StreamID == 0 {
			l.implWU0 += int64(e.Increment)
			l.connSend += int64(e.Increment)
		} else {
			l.stream(e.StreamID).ImplGrants += int64(e.Increment)
		}
	case http2.FrameGoAway:
		l.goAway, l.goCode, l.goDebug = true, e.ErrCode, string(e.Debug)
	case http2.FramePing:
		if e.Flags&http2.FlagPingAck != 0 {
			l.pingAcks[e.PingData] = true
		}
	}
}

// Advance merges everything logged so far. Sends that are newer than the last
// received frame stay pending (Settle applies them).
func (l *Ledger) Advance() {
	p := l.P
	p.mu.Lock()
	evs := p.events
	p.mu.Unlock()
	l.mu.Lock()
	defer l.mu.Unlock()
	l.advance(evs)
}

func (l *Ledger) advance(evs []Event) {
	first := l.evNext
	for ; l.evNext < len(evs); l.evNext++ {
		e := &evs[l.evNext]
		for l.opNext < len(l.ops) && l.ops[l.opNext].seq < e.Seq {
			l.applyOp(l.ops[l.opNext])
			l.opNext++
		}
		l.applyEvent(l.evNext, e)
	}
	if l.DropData && l.evNext > first {
		l.P.mu.Lock()
		for i := first; i < l.evNext; i++ {
			if l.P.events[i].Type == http2.FrameData {
				l.P.events[i].Data = nil
			}
		}
		l.P.mu.Unlock()
	}
	if len(l.ops) > 4096 && l.opNext == len(l.ops) {
		l.ops, l.opNext = l.ops[:0], 0
	}
}

// Settle merges the log and then applies every send made so far. To be called
// when nothing is in flight (after a fence).
func (l *Ledger) Settle() {
	l.Advance()
	l.mu.Lock()
	defer l.mu.Unlock()
	for l.opNext < len(l.ops) {
		l.applyOp(l.ops[l.opNext])
		l.opNext++
	}
}

// Quiesce is the data fence (three PING round trips), after which the ledger is
// exact: every send is applied and every SETTINGS frame counts as acknowledged.
func (l *Ledger) Quiesce(timeout time.Duration) error {
	if err := l.P.Fence3(timeout); err != nil {
		l.Advance()
		return err
	}
	l.Settle()
	l.mu.Lock()
	l.collapse()
	l.mu.Unlock()
	return nil
}

// FenceControl is one PING round trip: every control-frame reaction of the
// implementation's frame loop to earlier frames has been received.
func (l *Ledger) FenceControl(timeout time.Duration) error {
	if _, err := l.P.Fence(timeout); err != nil {
		l.Advance()
		return err
	}
	l.Settle()
	l.mu.Lock()
	l.collapse()
	l.mu.Unlock()
	return nil
}

// WaitUntil re-evaluates pred after every batch of new frames until it holds,
// the connection ends or the watchdog expires. It returns the time waited.
func (l *Ledger) WaitUntil(timeout time.Duration, pred func() bool) (bool, time.Duration) {
	start := time.Now()
	deadline := start.Add(timeout)
	p := l.P
	timer := time.AfterFunc(timeout, func() { p.mu.Lock(); p.cond.Broadcast(); p.mu.Unlock() })
	defer timer.Stop()
	for {
		p.mu.Lock()
		evs := p.events
		p.mu.Unlock()
		l.mu.Lock()
		l.advance(evs)
		n, eof := l.evNext, l.eof
		l.mu.Unlock()
		if pred() {
			return true, time.Since(start)
		}
		if eof {
			return false, time.Since(start)
		}
		p.mu.Lock()
		for len(p.events) <= n && time.Now().Before(deadline) {
			p.cond.Wait()
		}
		more := len(p.events) > n
		p.mu.Unlock()
		if !more {
			return false, time.Since(start)
		}
	}
}

// WaitProgress is WaitUntil with an idle watchdog: it gives up when no frame at
// all has arrived for idle (or after total). For waits whose length is
// proportional to the amount of data that has to arrive.
func (l *Ledger) WaitProgress(idle, total time.Duration, pred func() bool) (ok bool, waited, longestGap time.Duration) {
	start := time.Now()
	last := start
	for {
		n0 := l.P.Len()
		ok, _ := l.WaitUntil(idle, func() bool { return pred() || l.P.Len() > n0 })
		now := time.Now()
		if pred() {
			if g := now.Sub(last); g > longestGap {
				longestGap = g
			}
			return true, now.Sub(start), longestGap
		}
		if !ok || l.EOF() || now.Sub(start) > total {
			return false, now.Sub(start), now.Sub(last)
		}
		if g := now.Sub(last); g > longestGap {
			longestGap = g
		}
		last = now
	}
}

// ---------------------------------------------------------------- queries

func (l *Ledger) Violations() []LViolation {
	l.mu.Lock()
	defer l.mu.Unlock()
	return append([]LViolation{}, l.viol...)
}

func (l *Ledger) Stats() LStats {
	l.mu.Lock()
	defer l.mu.Unlock()
	return l.stats
}

// Stream returns a copy of the ledger entry (zero value if unknown).
func (l *Ledger) Stream(sid uint32) LStream {
	l.mu.Lock()
	defer l.mu.Unlock()
	if s := l.all[sid]; s != nil {
		return *s
	}
	return LStream{}
}

func (l *Ledger) Known(sid uint32) bool {
	l.mu.Lock()
	defer l.mu.Unlock()
	return l.all[sid] != nil
}

// StreamIDs lists all streams the ledger has seen.
func (l *Ledger) StreamIDs() []uint32 {
	l.mu.Lock()
	defer l.mu.Unlock()
	ids := make([]uint32, 0, len(l.all))
	for id := range l.all {
		ids = append(ids, id)
	}
	return ids
}

func (l *Ledger) NumStreams() int {
	l.mu.Lock()
	defer l.mu.Unlock()
	return len(l.all)
}

// Forget drops a finished stream from the ledger (long histories).
func (l *Ledger) Forget(sid uint32) {
	l.mu.Lock()
	delete(l.all, sid)
	delete(l.live, sid)
	l.mu.Unlock()
}

// Allowance is the upper bound of what the implementation may still send on sid.
func (l *Ledger) Allowance(sid uint32) int64 {
	l.mu.Lock()
	defer l.mu.Unlock()
	s := l.all[sid]
	if s == nil {
		return maxOf(l.iw)
	}
	return maxOf(l.iw) + s.Grants - s.Recv
}

// DataBytes is the total of DATA payload bytes received on all streams.
func (l *Ledger) DataBytes() int64 { l.mu.Lock(); defer l.mu.Unlock(); return l.stats.DataBytes }

func (l *Ledger) ConnAllowance() int64 {
	l.mu.Lock()
	defer l.mu.Unlock()
	return l.conn
}

func (l *Ledger) InitialWindow() int64 { l.mu.Lock(); defer l.mu.Unlock(); return maxOf(l.iw) }
func (l *Ledger) MaxFrame() int64      { l.mu.Lock(); defer l.mu.Unlock(); return maxOf(l.mfs) }
func (l *Ledger) PendingSettings() int { l.mu.Lock(); defer l.mu.Unlock(); return len(l.pend) }

func (l *Ledger) GoAway() (bool, http2.ErrCode, string) {
	l.mu.Lock()
	defer l.mu.Unlock()
	return l.goAway, l.goCode, l.goDebug
}

func (l *Ledger) EOF() bool { l.mu.Lock(); defer l.mu.Unlock(); return l.eof }

// ImplSettings is the number of non-ACK SETTINGS frames received.
func (l *Ledger) ImplSettings() int { l.mu.Lock(); defer l.mu.Unlock(); return l.implSettings }

// ImplInitialWindow / ImplMaxFrame: what the implementation advertised.
func (l *Ledger) ImplInitialWindow() int64 { l.mu.Lock(); defer l.mu.Unlock(); return l.implIW }
func (l *Ledger) ImplMaxFrame() int64      { l.mu.Lock(); defer l.mu.Unlock(); return l.implMFS }

// ConnSendAllowance is what the peer may still send on the connection
// according to what the implementation advertised (65535 + its stream-0
// WINDOW_UPDATEs − flow-controlled bytes sent).
func (l *Ledger) ConnSendAllowance() int64 { l.mu.Lock(); defer l.mu.Unlock(); return l.connSend }

// StreamSendAllowance likewise for a stream.
func (l *Ledger) StreamSendAllowance(sid uint32) int64 {
	l.mu.Lock()
	defer l.mu.Unlock()
	s := l.all[sid]
	if s == nil {
		return l.implIW
	}
	return l.implIW + s.ImplGrants - s.Sent
}

// ConnCredit: total stream-0 increments received and flow-controlled bytes sent.
func (l *Ledger) ConnCredit() (wu0, sent int64) {
	l.mu.Lock()
	defer l.mu.Unlock()
	return l.implWU0, l.connSent
}

func (l *Ledger) PingAcked(d [8]byte) bool { l.mu.Lock(); defer l.mu.Unlock(); return l.pingAcks[d] }

// Ping writes a PING without waiting.
func (l *Ledger) Ping(d [8]byte) error {
	l.smu.Lock()
	defer l.smu.Unlock()
	return l.P.Do(func(fr *http2.Framer) error { return fr.WritePing(false, d) })
}

// Live calls f for every stream that neither side has reset.
func (l *Ledger) Live(f func(s *LStream)) {
	l.mu.Lock()
	defer l.mu.Unlock()
	for _, s := range l.live {
		f(s)
	}
}

// HeaderValue finds a field in the first header block received on sid.
func (s *LStream) HeaderValue(name string) string {
	for _, h := range s.Headers {
		if h.Name == name {
			return h.Value
		}
	}
	return ""
}
