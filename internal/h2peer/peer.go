// Package h2peer is a raw-frame HTTP/2 peer for the monitors. It reads and
// writes frames with the Framer and HPACK codec of golang.org/x/net v0.19.0
// from the module cache — never with the fork under test — and keeps an
// ordered log of everything received.
package h2peer

import (
	"bytes"
	"encoding/binary"
	"errors"
	"fmt"
	"io"
	"net"
	"sync"
	"sync/atomic"
	"time"

	"golang.org/x/net/http2"
	"golang.org/x/net/http2/hpack"
)

const ClientPreface = "PRI * HTTP/2.0\r\n\r\nSM\r\n\r\n"

// Event is one received frame (or the end of the stream of frames).
type Event struct {
	Seq      int64 // value of the shared logical clock when the frame was received
	Type     http2.FrameType
	Flags    http2.Flags
	StreamID uint32
	Length   uint32 // payload length on the wire (flow-controlled size for DATA)

	Data         []byte          // DATA payload without padding / header block fragment
	PadLen       int             // DATA: padding bytes incl. the length byte
	Settings     []http2.Setting // SETTINGS
	ErrCode      http2.ErrCode   // RST_STREAM, GOAWAY
	LastStreamID uint32          // GOAWAY
	Debug        []byte          // GOAWAY
	Increment    uint32          // WINDOW_UPDATE
	PingData     [8]byte
	PromisedID   uint32
	Priority     http2.PriorityParam
	HasPriority  bool

	// Headers is set on the frame that completes a header block (END_HEADERS).
	Headers    []hpack.HeaderField
	HeadersErr string

	EOF     bool   // the connection ended (ReadErr says how)
	ReadErr string // error returned by the independent Framer
}

func (e Event) Is(t http2.FrameType) bool { return !e.EOF && e.Type == t }
func (e Event) Ack() bool                 { return e.Flags&http2.FlagSettingsAck != 0 }
func (e Event) EndStream() bool           { return e.Flags&http2.FlagDataEndStream != 0 }
func (e Event) EndHeaders() bool          { return e.Flags&http2.FlagHeadersEndHeaders != 0 }

func (e Event) String() string {
	if e.EOF {
		return "EOF(" + e.ReadErr + ")"
	}
	s := fmt.Sprintf("%v sid=%d flags=%#x len=%d", e.Type, e.StreamID, uint8(e.Flags), e.Length)
	switch e.Type {
	case http2.FrameRSTStream:
		s += " code=" + e.ErrCode.String()
	case http2.FrameGoAway:
		s += fmt.Sprintf(" last=%d code=%s debug=%q", e.LastStreamID, e.ErrCode, e.Debug)
	case http2.FrameWindowUpdate:
		s += fmt.Sprintf(" incr=%d", e.Increment)
	case http2.FrameSettings:
		s += fmt.Sprintf(" %v", e.Settings)
	case http2.FrameHeaders:
		if e.Headers != nil {
			s += fmt.Sprintf(" %v", e.Headers)
		}
	}
	return s
}

// Peer is one end of an HTTP/2 connection.
type Peer struct {
	Conn  net.Conn
	Clock *int64 // logical clock shared with whoever else stamps events

	wmu sync.Mutex
	fr  *http2.Framer
	enc *hpack.Encoder
	eb  bytes.Buffer

	mu     sync.Mutex
	cond   *sync.Cond
	events []Event
	eof    bool
	pingN  uint64

	dec      *hpack.Decoder
	decBuf   []hpack.HeaderField
	blockBuf []byte
	inBlock  bool
}

// New wraps conn and starts the reader goroutine. clock may be nil.
func New(conn net.Conn, clock *int64) *Peer {
	if clock == nil {
		clock = new(int64)
	}
	p := &Peer{Conn: conn, Clock: clock}
	p.cond = sync.NewCond(&p.mu)
	p.fr = http2.NewFramer(conn, conn)
	p.fr.SetMaxReadFrameSize(1<<24 - 1)
	p.fr.AllowIllegalWrites = true
	p.fr.AllowIllegalReads = true
	p.enc = hpack.NewEncoder(&p.eb)
	p.dec = hpack.NewDecoder(4096, func(f hpack.HeaderField) { p.decBuf = append(p.decBuf, f) })
	p.dec.SetAllowedMaxDynamicTableSize(1 << 22) // scripts may advertise a SETTINGS_HEADER_TABLE_SIZE up to this
	go p.readLoop()
	return p
}

func (p *Peer) Tick() int64 { return atomic.AddInt64(p.Clock, 1) }

func (p *Peer) readLoop() {
	for {
		f, err := p.fr.ReadFrame()
		if err != nil {
			p.push(Event{EOF: true, ReadErr: err.Error()})
			return
		}
		h := f.Header()
		ev := Event{Type: h.Type, Flags: h.Flags, StreamID: h.StreamID, Length: h.Length}
		switch f := f.(type) {
		case *http2.DataFrame:
			ev.Data = append([]byte{}, f.Data()...)
			ev.PadLen = int(h.Length) - len(f.Data())
		case *http2.HeadersFrame:
			ev.HasPriority = f.HasPriority()
			ev.Priority = f.Priority
			frag := f.HeaderBlockFragment()
			ev.Data = append([]byte{}, frag...)
			p.blockBuf = append(p.blockBuf[:0], frag...)
			p.inBlock = true
			if f.HeadersEnded() {
				p.finishBlock(&ev)
			}
		case *http2.ContinuationFrame:
			frag := f.HeaderBlockFragment()
			ev.Data = append([]byte{}, frag...)
			p.blockBuf = append(p.blockBuf, frag...)
			if f.HeadersEnded() {
				p.finishBlock(&ev)
			}
		case *http2.PushPromiseFrame:
			ev.PromisedID = f.PromiseID
			frag := f.HeaderBlockFragment()
			ev.Data = append([]byte{}, frag...)
			p.blockBuf = append(p.blockBuf[:0], frag...)
			if f.HeadersEnded() {
				p.finishBlock(&ev)
			}
		case *http2.SettingsFrame:
			f.ForeachSetting(func(s http2.Setting) error { ev.Settings = append(ev.Settings, s); return nil })
		case *http2.RSTStreamFrame:
			ev.ErrCode = f.ErrCode
		case *http2.GoAwayFrame:
			ev.ErrCode, ev.LastStreamID = f.ErrCode, f.LastStreamID
			ev.Debug = append([]byte{}, f.DebugData()...)
		case *http2.WindowUpdateFrame:
			ev.Increment = f.Increment
		case *http2.PingFrame:
			ev.PingData = f.Data
		case *http2.PriorityFrame:
			ev.Priority, ev.HasPriority = f.PriorityParam, true
		}
		p.push(ev)
	}
}

func (p *Peer) finishBlock(ev *Event) {
	p.decBuf = nil
	_, err := p.dec.Write(p.blockBuf)
	if err == nil {
		err = p.dec.Close()
	}
	if err != nil {
		ev.HeadersErr = err.Error()
	}
	ev.Headers = append([]hpack.HeaderField{}, p.decBuf...)
	if ev.Headers == nil {
		ev.Headers = []hpack.HeaderField{}
	}
	p.inBlock = false
}

func (p *Peer) push(ev Event) {
	ev.Seq = p.Tick()
	p.mu.Lock()
	p.events = append(p.events, ev)
	if ev.EOF {
		p.eof = true
	}
	p.cond.Broadcast()
	p.mu.Unlock()
}

// Events returns a snapshot of the receive log.
func (p *Peer) Events() []Event {
	p.mu.Lock()
	defer p.mu.Unlock()
	return append([]Event{}, p.events...)
}

func (p *Peer) Len() int {
	p.mu.Lock()
	defer p.mu.Unlock()
	return len(p.events)
}

// WaitFor blocks until an event at index >= from satisfies pred, the
// connection ends, or the watchdog expires. It returns the index.
func (p *Peer) WaitFor(from int, timeout time.Duration, pred func(Event) bool) (int, bool) {
	deadline := time.Now().Add(timeout)
	timer := time.AfterFunc(timeout, func() { p.mu.Lock(); p.cond.Broadcast(); p.mu.Unlock() })
	defer timer.Stop()
	p.mu.Lock()
	defer p.mu.Unlock()
	i := from
	for {
		for ; i < len(p.events); i++ {
			if pred(p.events[i]) {
				return i, true
			}
		}
		if p.eof || !time.Now().Before(deadline) {
			return -1, false
		}
		p.cond.Wait()
	}
}

// WaitEOF waits until the peer's side of the connection has ended.
func (p *Peer) WaitEOF(timeout time.Duration) bool {
	_, ok := p.WaitFor(0, timeout, func(e Event) bool { return e.EOF })
	return ok
}

func (p *Peer) Ended() bool {
	p.mu.Lock()
	defer p.mu.Unlock()
	return p.eof
}

// Do runs f with exclusive access to the write side.
func (p *Peer) Do(f func(fr *http2.Framer) error) error {
	p.wmu.Lock()
	defer p.wmu.Unlock()
	return f(p.fr)
}

// WriteRaw writes bytes as they are (preface, hand-made frames).
func (p *Peer) WriteRaw(b []byte) error {
	p.wmu.Lock()
	defer p.wmu.Unlock()
	_, err := p.Conn.Write(b)
	return err
}

// RawFrame builds a frame from its parts without any validation.
func RawFrame(t uint8, flags uint8, streamID uint32, payload []byte) []byte {
	b := make([]byte, 9+len(payload))
	b[0], b[1], b[2] = byte(len(payload)>>16), byte(len(payload)>>8), byte(len(payload))
	b[3], b[4] = t, flags
	binary.BigEndian.PutUint32(b[5:], streamID)
	copy(b[9:], payload)
	return b
}

// Encode HPACK-encodes fields with this connection's encoder state.
func (p *Peer) Encode(fields []hpack.HeaderField) []byte {
	p.wmu.Lock()
	defer p.wmu.Unlock()
	p.eb.Reset()
	for _, f := range fields {
		p.enc.WriteField(f)
	}
	return append([]byte{}, p.eb.Bytes()...)
}

// Encoder gives access to the HPACK encoder (call under Do or single-threaded).
func (p *Peer) Encoder() *hpack.Encoder { return p.enc }

// Preface writes the client preface and a SETTINGS frame.
func (p *Peer) Preface(settings ...http2.Setting) error {
	if err := p.WriteRaw([]byte(ClientPreface)); err != nil {
		return err
	}
	return p.Do(func(fr *http2.Framer) error { return fr.WriteSettings(settings...) })
}

// Request writes a complete request header block (one HEADERS frame).
func (p *Peer) Request(streamID uint32, endStream bool, fields ...hpack.HeaderField) error {
	block := p.Encode(fields)
	return p.Do(func(fr *http2.Framer) error {
		return fr.WriteHeaders(http2.HeadersFrameParam{StreamID: streamID, BlockFragment: block, EndStream: endStream, EndHeaders: true})
	})
}

// GetFields is a minimal valid request.
func GetFields(authority, path string, extra ...hpack.HeaderField) []hpack.HeaderField {
	f := []hpack.HeaderField{{Name: ":method", Value: "GET"}, {Name: ":scheme", Value: "https"}, {Name: ":authority", Value: authority}, {Name: ":path", Value: path}}
	return append(f, extra...)
}

var ErrFence = errors.New("h2peer: no PING ACK (connection ended or watchdog expired)")

// Fence sends a PING and waits for its ACK: every reaction of the peer's serve
// loop to frames written before the PING precedes the ACK in the log (control
// frames are written in order). Returns the log index of the ACK.
func (p *Peer) Fence(timeout time.Duration) (int, error) {
	p.mu.Lock()
	p.pingN++
	n := p.pingN
	from := len(p.events)
	p.mu.Unlock()
	var d [8]byte
	binary.BigEndian.PutUint64(d[:], 0xfe00000000000000|n)
	if err := p.Do(func(fr *http2.Framer) error { return fr.WritePing(false, d) }); err != nil {
		return -1, err
	}
	i, ok := p.WaitFor(from, timeout, func(e Event) bool {
		return e.Is(http2.FramePing) && e.Flags&http2.FlagPingAck != 0 && e.PingData == d
	})
	if !ok {
		return -1, ErrFence
	}
	return i, nil
}

// Fence3 is three sequential PING round trips: after the last ACK the peer's
// write scheduler has run with an empty control queue, so any DATA it
// considered sendable has been written (used as a data fence).
func (p *Peer) Fence3(timeout time.Duration) error {
	for i := 0; i < 3; i++ {
		if _, err := p.Fence(timeout); err != nil {
			return err
		}
	}
	return nil
}

func (p *Peer) Close() error { return p.Conn.Close() }

// Response collects what was received on a stream up to now.
type Response struct {
	Status    string
	Headers   []hpack.HeaderField
	Trailers  []hpack.HeaderField
	Body      []byte
	Ended     bool
	Reset     bool
	ResetCode http2.ErrCode
}

func (p *Peer) Response(streamID uint32) Response {
	var r Response
	gotHeaders := false
	for _, e := range p.Events() {
		if e.EOF || e.StreamID != streamID {
			continue
		}
		switch e.Type {
		case http2.FrameHeaders, http2.FrameContinuation:
			if e.Headers != nil {
				if !gotHeaders {
					informational := false
					for _, h := range e.Headers {
						if h.Name == ":status" {
							if len(h.Value) == 3 && h.Value[0] == '1' {
								informational = true
							}
							r.Status = h.Value
						}
					}
					if !informational {
						gotHeaders = true
						r.Headers = e.Headers
					}
				} else {
					r.Trailers = e.Headers
				}
			}
			if e.Type == http2.FrameHeaders && e.EndStream() {
				r.Ended = true
			}
		case http2.FrameData:
			r.Body = append(r.Body, e.Data...)
			if e.EndStream() {
				r.Ended = true
			}
		case http2.FrameRSTStream:
			// a RST_STREAM that follows a complete response (e.g. STREAM_CLOSED for request DATA
			// that arrived after the server had finished) does not undo the response
			if !r.Ended {
				r.Reset, r.ResetCode = true, e.ErrCode
			}
		}
	}
	return r
}

// WaitResponse waits until stream streamID has ended (END_STREAM or RST_STREAM).
func (p *Peer) WaitResponse(streamID uint32, timeout time.Duration) (Response, bool) {
	_, ok := p.WaitFor(0, timeout, func(e Event) bool {
		if e.EOF || e.StreamID != streamID {
			return false
		}
		return e.Is(http2.FrameRSTStream) || ((e.Is(http2.FrameData) || e.Is(http2.FrameHeaders)) && e.EndStream())
	})
	return p.Response(streamID), ok
}

var _ = io.EOF
