package h2peer

import (
	"fmt"
	"io"
	"net"
	"time"

	"golang.org/x/net/http2"
	"golang.org/x/net/http2/hpack"
)

// AcceptClient is the server role of the peer: it reads the 24-byte client
// connection preface raw and then starts the frame reader on conn.
func AcceptClient(conn net.Conn, clock *int64, timeout time.Duration) (*Peer, error) {
	conn.SetReadDeadline(time.Now().Add(timeout))
	buf := make([]byte, len(ClientPreface))
	if _, err := io.ReadFull(conn, buf); err != nil {
		return nil, fmt.Errorf("h2peer: reading client preface: %w", err)
	}
	conn.SetReadDeadline(time.Time{})
	if string(buf) != ClientPreface {
		return nil, fmt.Errorf("h2peer: bad client preface %q", buf)
	}
	return New(conn, clock), nil
}

// Respond writes a response header block on sid.
func (l *Ledger) Respond(sid uint32, status string, endStream bool, extra ...hpack.HeaderField) error {
	f := append([]hpack.HeaderField{{Name: ":status", Value: status}}, extra...)
	return l.Headers(sid, endStream, f...)
}

// PostFields is a minimal request with a body.
func PostFields(authority, path string, extra ...hpack.HeaderField) []hpack.HeaderField {
	f := []hpack.HeaderField{{Name: ":method", Value: "POST"}, {Name: ":scheme", Value: "https"}, {Name: ":authority", Value: authority}, {Name: ":path", Value: path}}
	return append(f, extra...)
}

// AutoPingAck answers every PING of the implementation from a goroutine of
// its own (the client transport counts an unanswered PING that it bundles with
// a RST_STREAM against its concurrency limit).
func (l *Ledger) AutoPingAck() {
	go func() {
		p := l.P
		from := 0
		for {
			i, ok := p.WaitFor(from, time.Hour, func(e Event) bool {
				return e.EOF || (e.Is(http2.FramePing) && e.Flags&http2.FlagPingAck == 0)
			})
			if !ok {
				return
			}
			p.mu.Lock()
			ev := p.events[i]
			p.mu.Unlock()
			if ev.EOF {
				return
			}
			l.smu.Lock()
			err := p.Do(func(fr *http2.Framer) error { return fr.WritePing(true, ev.PingData) })
			l.smu.Unlock()
			if err != nil {
				return
			}
			from = i + 1
		}
	}()
}
