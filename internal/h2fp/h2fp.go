//go:build verif

// Package h2fp drives an HTTP/2 connection through the proxy with the raw-frame
// peer while keeping the exact client frame history the Akamai reference needs.
package h2fp

import (
	"crypto/tls"
	"fmt"
	"math/rand"
	"net"
	"sync"

	"golang.org/x/net/http2"
	"golang.org/x/net/http2/hpack"

	"verif/internal/h2peer"
	"verif/internal/ref"
	"verif/internal/rig"
)

type Conn struct {
	Peer *h2peer.Peer
	TLS  *tls.Conn

	mu      sync.Mutex
	history []ref.H2Frame
	Next    uint32 // next client stream id
}

// Dial connects to the proxy with ALPN h2 and sends the client preface (without SETTINGS).
func Dial(addr string, local net.Addr, cfgTweak func(*tls.Config)) (*Conn, error) {
	cfg := &tls.Config{InsecureSkipVerify: true, ServerName: "front.example", NextProtos: []string{"h2"}}
	if cfgTweak != nil {
		cfgTweak(cfg)
	}
	tc, _, err := rig.StdDial(addr, cfg, nil, local)
	if err != nil {
		return nil, err
	}
	if tc.ConnectionState().NegotiatedProtocol != "h2" {
		tc.Close()
		return nil, fmt.Errorf("h2 not negotiated")
	}
	c := &Conn{Peer: h2peer.New(tc, nil), TLS: tc, Next: 1}
	if err := c.Peer.WriteRaw([]byte(h2peer.ClientPreface)); err != nil {
		tc.Close()
		return nil, err
	}
	return c, nil
}

// Wrap starts an HTTP/2 client on an established connection (any TLS client
// that negotiated h2) and sends the client preface (without SETTINGS).
func Wrap(conn net.Conn) (*Conn, error) {
	c := &Conn{Peer: h2peer.New(conn, nil), Next: 1}
	if err := c.Peer.WriteRaw([]byte(h2peer.ClientPreface)); err != nil {
		conn.Close()
		return nil, err
	}
	return c, nil
}

func (c *Conn) Close() { c.Peer.Close() }

// History returns a copy of the frames written so far (fingerprint-relevant view).
func (c *Conn) History() []ref.H2Frame {
	c.mu.Lock()
	defer c.mu.Unlock()
	return append([]ref.H2Frame{}, c.history...)
}

func (c *Conn) Len() int {
	c.mu.Lock()
	defer c.mu.Unlock()
	return len(c.history)
}

func (c *Conn) record(f ref.H2Frame) int {
	c.mu.Lock()
	defer c.mu.Unlock()
	c.history = append(c.history, f)
	return len(c.history)
}

func (c *Conn) Settings(entries [][2]uint32) error {
	ss := make([]http2.Setting, len(entries))
	for i, e := range entries {
		ss[i] = http2.Setting{ID: http2.SettingID(e[0]), Val: e[1]}
	}
	if err := c.Peer.Do(func(fr *http2.Framer) error { return fr.WriteSettings(ss...) }); err != nil {
		return err
	}
	c.record(ref.H2Frame{Kind: "settings", Settings: entries})
	return nil
}

func (c *Conn) SettingsAck() error {
	if err := c.Peer.Do(func(fr *http2.Framer) error { return fr.WriteSettingsAck() }); err != nil {
		return err
	}
	c.record(ref.H2Frame{Kind: "settings_ack"})
	return nil
}

func (c *Conn) WindowUpdate(stream, incr uint32) error {
	if err := c.Peer.Do(func(fr *http2.Framer) error { return fr.WriteWindowUpdate(stream, incr) }); err != nil {
		return err
	}
	c.record(ref.H2Frame{Kind: "window_update", StreamID: stream, Incr: incr})
	return nil
}

func (c *Conn) Priority(stream, dep uint32, excl bool, weight uint8) error {
	if err := c.Peer.Do(func(fr *http2.Framer) error {
		return fr.WritePriority(stream, http2.PriorityParam{StreamDep: dep, Exclusive: excl, Weight: weight})
	}); err != nil {
		return err
	}
	c.record(ref.H2Frame{Kind: "priority", StreamID: stream, Dep: dep, Excl: excl, Weight: weight})
	return nil
}

func (c *Conn) Ping() error {
	_, err := c.Peer.Fence(10e9)
	return err
}

type Prio struct {
	Dep    uint32
	Excl   bool
	Weight uint8
}

// Headers writes a header block on stream (HEADERS + `splits` CONTINUATION
// frames) and returns the history length once the block is complete.
func (c *Conn) Headers(stream uint32, fields []hpack.HeaderField, prio *Prio, splits int, endStream bool, r *rand.Rand) (int, error) {
	block := c.Peer.Encode(fields)
	var parts [][]byte
	if splits > 0 && len(block) > splits {
		cut := make([]int, 0, splits)
		for i := 0; i < splits; i++ {
			cut = append(cut, 1+r.Intn(len(block)-1))
		}
		// sort
		for i := range cut {
			for j := i + 1; j < len(cut); j++ {
				if cut[j] < cut[i] {
					cut[i], cut[j] = cut[j], cut[i]
				}
			}
		}
		last := 0
		for _, x := range cut {
			parts = append(parts, block[last:x])
			last = x
		}
		parts = append(parts, block[last:])
	} else {
		parts = [][]byte{block}
	}
	err := c.Peer.Do(func(fr *http2.Framer) error {
		if prio != nil {
			// hand-made frame: the independent framer omits an all-zero priority block,
			// which is a legal frame (PRIORITY flag set, dependency 0, weight 0)
			flags := uint8(0x20)
			if endStream {
				flags |= 0x1
			}
			if len(parts) == 1 {
				flags |= 0x4
			}
			dep := prio.Dep & 0x7fffffff
			if prio.Excl {
				dep |= 1 << 31
			}
			pl := []byte{byte(dep >> 24), byte(dep >> 16), byte(dep >> 8), byte(dep), prio.Weight}
			pl = append(pl, parts[0]...)
			if err := fr.WriteRawFrame(http2.FrameHeaders, http2.Flags(flags), stream, pl); err != nil {
				return err
			}
		} else if err := fr.WriteHeaders(http2.HeadersFrameParam{StreamID: stream, BlockFragment: parts[0], EndStream: endStream, EndHeaders: len(parts) == 1}); err != nil {
			return err
		}
		for i := 1; i < len(parts); i++ {
			if err := fr.WriteContinuation(stream, i == len(parts)-1, parts[i]); err != nil {
				return err
			}
		}
		return nil
	})
	if err != nil {
		return 0, err
	}
	names := make([]string, len(fields))
	for i, f := range fields {
		names[i] = f.Name
	}
	f := ref.H2Frame{Kind: "headers", StreamID: stream, Names: names}
	if prio != nil {
		f.HasPrio, f.Dep, f.Excl, f.Weight = true, prio.Dep, prio.Excl, prio.Weight
	}
	return c.record(f), nil
}

func (c *Conn) Data(stream uint32, end bool, b []byte) error {
	return c.Peer.Do(func(fr *http2.Framer) error { return fr.WriteData(stream, end, b) })
}

// PseudoOrders are all 24 orders of the four request pseudo-headers.
func PseudoOrder(k int, authority, path, method string) []hpack.HeaderField {
	base := []hpack.HeaderField{{Name: ":method", Value: method}, {Name: ":scheme", Value: "https"}, {Name: ":authority", Value: authority}, {Name: ":path", Value: path}}
	idx := []int{0, 1, 2, 3}
	// k-th permutation (factorial number system)
	k %= 24
	var out []hpack.HeaderField
	for n := 4; n >= 1; n-- {
		f := 1
		for i := 2; i < n; i++ {
			f *= i
		}
		j := k / f
		k %= f
		out = append(out, base[idx[j]])
		idx = append(idx[:j], idx[j+1:]...)
	}
	return out
}
