// Package ref holds the reference models the monitors compare the code under
// test with. This file: an RFC 7541 (HPACK) decoder written from the RFC text,
// sharing no code with pkg/http2/hpack.
package ref

import (
	"fmt"

	xhpack "golang.org/x/net/http2/hpack" // v0.19.0 from the module cache: only used to derive the Huffman code table (RFC 7541 Appendix B)
)

type HF struct {
	Name, Value string
	Sensitive   bool
}

func (f HF) size() uint32 { return uint32(len(f.Name) + len(f.Value) + 32) }

// RFC 7541 Appendix A.
var staticTable = [...][2]string{
	{":authority", ""}, {":method", "GET"}, {":method", "POST"}, {":path", "/"}, {":path", "/index.html"},
	{":scheme", "http"}, {":scheme", "https"}, {":status", "200"}, {":status", "204"}, {":status", "206"},
	{":status", "304"}, {":status", "400"}, {":status", "404"}, {":status", "500"}, {"accept-charset", ""},
	{"accept-encoding", "gzip, deflate"}, {"accept-language", ""}, {"accept-ranges", ""}, {"accept", ""},
	{"access-control-allow-origin", ""}, {"age", ""}, {"allow", ""}, {"authorization", ""}, {"cache-control", ""},
	{"content-disposition", ""}, {"content-encoding", ""}, {"content-language", ""}, {"content-length", ""},
	{"content-location", ""}, {"content-range", ""}, {"content-type", ""}, {"cookie", ""}, {"date", ""}, {"etag", ""},
	{"expect", ""}, {"expires", ""}, {"from", ""}, {"host", ""}, {"if-match", ""}, {"if-modified-since", ""},
	{"if-none-match", ""}, {"if-range", ""}, {"if-unmodified-since", ""}, {"last-modified", ""}, {"link", ""},
	{"location", ""}, {"max-forwards", ""}, {"proxy-authenticate", ""}, {"proxy-authorization", ""}, {"range", ""},
	{"referer", ""}, {"refresh", ""}, {"retry-after", ""}, {"server", ""}, {"set-cookie", ""},
	{"strict-transport-security", ""}, {"transfer-encoding", ""}, {"user-agent", ""}, {"vary", ""}, {"via", ""},
	{"www-authenticate", ""},
}

const StaticLen = 61

// Outcome classes of a reference decode.
type Verdict int

const (
	Accept      Verdict = iota // RFC mandates acceptance with exactly these fields
	Reject                     // RFC mandates a decoding error
	ImplDefined                // RFC leaves the outcome to the implementation (either is fine)
)

type Decoder struct {
	dyn        []HF // newest first
	size       uint32
	maxSize    uint32
	allowedMax uint32
}

func NewDecoder(max uint32) *Decoder {
	return &Decoder{maxSize: max, allowedMax: max}
}

func (d *Decoder) SetAllowedMax(v uint32) { d.allowedMax = v }
func (d *Decoder) SetMax(v uint32)        { d.maxSize = v; d.evict() }
func (d *Decoder) Table() (oldestFirst []HF, size, max uint32) {
	for i := len(d.dyn) - 1; i >= 0; i-- {
		oldestFirst = append(oldestFirst, d.dyn[i])
	}
	return oldestFirst, d.size, d.maxSize
}

func (d *Decoder) evict() {
	for d.size > d.maxSize && len(d.dyn) > 0 {
		last := d.dyn[len(d.dyn)-1]
		d.size -= last.size()
		d.dyn = d.dyn[:len(d.dyn)-1]
	}
}

func (d *Decoder) add(f HF) {
	f.Sensitive = false
	d.dyn = append([]HF{f}, d.dyn...)
	d.size += f.size()
	d.evict() // an entry larger than the table empties it (RFC 7541 §4.4)
}

func (d *Decoder) at(i uint64) (HF, bool) {
	if i == 0 {
		return HF{}, false
	}
	if i <= StaticLen {
		return HF{Name: staticTable[i-1][0], Value: staticTable[i-1][1]}, true
	}
	k := i - StaticLen - 1
	if k >= uint64(len(d.dyn)) {
		return HF{}, false
	}
	return d.dyn[k], true
}

// Result of decoding one complete header block.
type Result struct {
	Fields  []HF
	Verdict Verdict
	Why     string
	// input-class flags
	LeadingUpdates      int  // number of size-update representations at the start of the block
	SecondUpdateNonEmpty bool // a 2nd/3rd… leading size update arrived while the table was non-empty
	MidBlockUpdate      bool
	BigInt              bool
}

type cursor struct {
	b   []byte
	pos int
}

var errTrunc = fmt.Errorf("truncated")

// readInt reads an N-bit-prefix integer (RFC 7541 §5.1). big reports an
// integer that needs more than 63 bits or more than 10 continuation bytes.
func (c *cursor) readInt(n uint) (v uint64, big bool, err error) {
	if c.pos >= len(c.b) {
		return 0, false, errTrunc
	}
	mask := uint64(1)<<n - 1
	v = uint64(c.b[c.pos]) & mask
	c.pos++
	if v < mask {
		return v, false, nil
	}
	var m uint
	for {
		if c.pos >= len(c.b) {
			return 0, big, errTrunc
		}
		x := c.b[c.pos]
		c.pos++
		if m >= 56 {
			big = true // beyond what every implementation must support
		} else {
			v += uint64(x&127) << m
		}
		m += 7
		if x&128 == 0 {
			return v, big, nil
		}
		if m > 700 {
			return 0, true, nil
		}
	}
}

func (c *cursor) readString() (s string, big bool, bad string, err error) {
	if c.pos >= len(c.b) {
		return "", false, "", errTrunc
	}
	huff := c.b[c.pos]&128 != 0
	l, big, err := c.readInt(7)
	if err != nil {
		return "", big, "", err
	}
	if big {
		return "", true, "", nil
	}
	if uint64(len(c.b)-c.pos) < l {
		return "", false, "", errTrunc
	}
	raw := c.b[c.pos : c.pos+int(l)]
	c.pos += int(l)
	if !huff {
		return string(raw), false, "", nil
	}
	out, why := HuffmanDecode(raw)
	if why != "" {
		return "", false, why, nil
	}
	return string(out), false, "", nil
}

// DecodeBlock decodes one complete header block and updates the table.
func (d *Decoder) DecodeBlock(b []byte) Result {
	var r Result
	c := &cursor{b: b}
	first := true
	leading := true
	for c.pos < len(c.b) {
		x := c.b[c.pos]
		switch {
		case x&128 != 0: // indexed
			idx, big, err := c.readInt(7)
			if err != nil {
				r.Verdict, r.Why = Reject, "truncated block"
				return r
			}
			if big {
				r.BigInt, r.Verdict, r.Why = true, ImplDefined, "integer beyond 2^56"
				return r
			}
			f, ok := d.at(idx)
			if !ok {
				r.Verdict, r.Why = Reject, fmt.Sprintf("index %d not in tables", idx)
				return r
			}
			f.Sensitive = false
			r.Fields = append(r.Fields, f)
			leading = false
		case x&192 == 64, x&240 == 0, x&240 == 16: // literal
			n := uint(4)
			indexed := false
			if x&192 == 64 {
				n, indexed = 6, true
			}
			never := x&240 == 16
			idx, big, err := c.readInt(n)
			if err != nil {
				r.Verdict, r.Why = Reject, "truncated block"
				return r
			}
			if big {
				r.BigInt, r.Verdict, r.Why = true, ImplDefined, "integer beyond 2^56"
				return r
			}
			var f HF
			if idx > 0 {
				e, ok := d.at(idx)
				if !ok {
					r.Verdict, r.Why = Reject, fmt.Sprintf("name index %d not in tables", idx)
					return r
				}
				f.Name = e.Name
			} else {
				s, big, bad, err := c.readString()
				if err != nil {
					r.Verdict, r.Why = Reject, "truncated block"
					return r
				}
				if big {
					r.BigInt, r.Verdict, r.Why = true, ImplDefined, "string length beyond 2^56"
					return r
				}
				if bad != "" {
					r.Verdict, r.Why = Reject, bad
					return r
				}
				f.Name = s
			}
			s, big, bad, err := c.readString()
			if err != nil {
				r.Verdict, r.Why = Reject, "truncated block"
				return r
			}
			if big {
				r.BigInt, r.Verdict, r.Why = true, ImplDefined, "string length beyond 2^56"
				return r
			}
			if bad != "" {
				r.Verdict, r.Why = Reject, bad
				return r
			}
			f.Value = s
			if indexed {
				d.add(f)
			}
			f.Sensitive = never
			r.Fields = append(r.Fields, f)
			leading = false
		default: // 001xxxxx dynamic table size update
			if !leading {
				r.MidBlockUpdate = true
				r.Verdict, r.Why = ImplDefined, "size update after a field"
				return r
			}
			if !first && d.size > 0 {
				r.SecondUpdateNonEmpty = true
			}
			v, big, err := c.readInt(5)
			if err != nil {
				r.Verdict, r.Why = Reject, "truncated block"
				return r
			}
			if big {
				r.BigInt = true
				r.Verdict, r.Why = ImplDefined, "integer beyond 2^56"
				return r
			}
			if v > uint64(d.allowedMax) {
				r.Verdict, r.Why = Reject, "size update above the allowed maximum"
				return r
			}
			r.LeadingUpdates++
			if r.LeadingUpdates > 2 {
				r.Verdict, r.Why = ImplDefined, "more than two size updates"
				return r
			}
			d.SetMax(uint32(v))
		}
		first = false
	}
	r.Verdict = Accept
	return r
}

// ---- Huffman (RFC 7541 Appendix B), table derived from an independent encoder.

type hnode struct {
	kid  [2]*hnode
	sym  int // -1 inner
}

var (
	huffRoot  *hnode
	HuffCode  [257]uint32
	HuffLen   [257]uint8
)

func init() {
	huffRoot = &hnode{sym: -1}
	for s := 0; s < 256; s++ {
		// eight copies of one symbol occupy exactly len(code) bytes: no padding
		in := make([]byte, 8)
		for i := range in {
			in[i] = byte(s)
		}
		out := xhpack.AppendHuffmanString(nil, string(in))
		l := len(out)
		var code uint32
		for i := 0; i < l; i++ {
			bit := (out[i/8] >> (7 - uint(i%8))) & 1
			code = code<<1 | uint32(bit)
		}
		HuffCode[s], HuffLen[s] = code, uint8(l)
		insert(s, code, uint8(l))
	}
	HuffCode[256], HuffLen[256] = 0x3fffffff, 30 // EOS
	insert(256, 0x3fffffff, 30)
}

func insert(sym int, code uint32, l uint8) {
	n := huffRoot
	for i := int(l) - 1; i >= 0; i-- {
		b := (code >> uint(i)) & 1
		if n.kid[b] == nil {
			n.kid[b] = &hnode{sym: -1}
		}
		n = n.kid[b]
	}
	n.sym = sym
}

// HuffmanDecode returns the decoded bytes, or a non-empty reason why RFC 7541
// §5.2 requires a decoding error.
func HuffmanDecode(b []byte) ([]byte, string) {
	var out []byte
	n := huffRoot
	pad := 0      // bits consumed since the last complete symbol
	allOnes := true
	for _, x := range b {
		for i := 7; i >= 0; i-- {
			bit := (x >> uint(i)) & 1
			if bit == 0 {
				allOnes = false
			}
			pad++
			n = n.kid[bit]
			if n == nil {
				return nil, "invalid huffman code"
			}
			if n.sym >= 0 {
				if n.sym == 256 {
					return nil, "EOS symbol inside a string"
				}
				out = append(out, byte(n.sym))
				n = huffRoot
				pad = 0
				allOnes = true
			}
		}
	}
	if pad > 7 {
		return nil, "huffman padding longer than 7 bits"
	}
	if pad > 0 && !allOnes {
		return nil, "huffman padding is not the EOS prefix"
	}
	return out, ""
}

// HuffmanEncode encodes with the derived table (used by generators).
func HuffmanEncode(s []byte, padBits int, padOnes bool) []byte {
	var out []byte
	var acc uint64
	var nb uint
	for _, c := range s {
		acc = acc<<HuffLen[c] | uint64(HuffCode[c])
		nb += uint(HuffLen[c])
		for nb >= 8 {
			out = append(out, byte(acc>>(nb-8)))
			nb -= 8
		}
	}
	if nb > 0 {
		rem := 8 - nb
		v := acc << rem
		if padOnes {
			v |= 1<<rem - 1
		}
		out = append(out, byte(v))
	}
	_ = padBits
	return out
}
