// This file: a reference parser for ONE HTTP/2 frame, written from RFC 7540
// §4.1–§6.10. It shares no code with pkg/http2 or golang.org/x/net/http2.
//
// Input: the raw bytes of one frame (9-byte header + payload) and the reader
// state (SETTINGS_MAX_FRAME_SIZE the reader advertised; whether a header block
// is open and on which stream). Output: the parsed fields, or the list of
// defects the frame has - each with the error code(s) RFC 7540 assigns and
// whether the RFC insists on a *connection* error - or "implementation-defined".
//
// Kind tolerance (DESIGN.md C13/C19): a defect whose ConnOnly is false may be
// reported as a stream error or escalated to a connection error; the code is
// what is judged. A frame with several defects may be rejected for any of them.
//
// Defects with Caller=true are requirements of RFC 7540 that the upstream Go
// Framer (golang.org/x/net/http2, which pkg/http2 is a copy of) deliberately
// leaves to the code that consumes the frame (server.go / transport.go). A
// Framer that returns such a frame is not in violation; it is counted as
// "left to caller". Each of them is listed where it is raised.
package ref

import "fmt"

// Frame types, RFC 7540 §11.2.
const (
	FData         = 0x0
	FHeaders      = 0x1
	FPriority     = 0x2
	FRSTStream    = 0x3
	FSettings     = 0x4
	FPushPromise  = 0x5
	FPing         = 0x6
	FGoAway       = 0x7
	FWindowUpdate = 0x8
	FContinuation = 0x9
)

// Error codes, RFC 7540 §7.
const (
	ENoError     = 0x0
	EProtocol    = 0x1
	EFlowControl = 0x3
	EFrameSize   = 0x6
	ECompression = 0x9
)

// Flag bits, RFC 7540 §6.
const (
	FlEndStream  = 0x1 // DATA, HEADERS
	FlAck        = 0x1 // SETTINGS, PING
	FlEndHeaders = 0x4 // HEADERS, PUSH_PROMISE, CONTINUATION
	FlPadded     = 0x8 // DATA, HEADERS, PUSH_PROMISE
	FlPriority   = 0x20
)

type FSetting struct {
	ID  uint16
	Val uint32
}

// PFrame is a parsed frame. Fields that do not apply to the type are zero.
type PFrame struct {
	Length   uint32
	Type     uint8
	Flags    uint8  // as on the wire; undefined flags are kept (RFC: "MUST be ignored")
	StreamID uint32 // reserved bit removed (§4.1: "MUST be ignored when receiving")

	// Body: DATA application data (padding removed); HEADERS / PUSH_PROMISE /
	// CONTINUATION header block fragment (pad length, priority, promised id and
	// padding removed); GOAWAY additional debug data; unknown types: whole payload.
	Body []byte

	Padded bool
	PadLen int // number of padding octets (0 when !Padded)

	HasPriority bool // HEADERS with PRIORITY flag, or PRIORITY frame
	Dep         uint32
	Exclusive   bool
	Weight      uint8

	Settings     []FSetting // in wire order
	Ping         [8]byte
	LastStreamID uint32 // GOAWAY, reserved bit removed
	ErrCode      uint32 // RST_STREAM, GOAWAY
	Increment    uint32 // WINDOW_UPDATE, reserved bit removed
	PromiseID    uint32 // PUSH_PROMISE, reserved bit removed
}

// FrameState is the part of the reader's state the verdict depends on.
type FrameState struct {
	MaxFrameSize uint32 // largest payload the reader accepts
	BlockOpen    bool   // last frame was HEADERS/PUSH_PROMISE/CONTINUATION without END_HEADERS
	BlockStream  uint32
	BlockByPush  bool // the open block was started by PUSH_PROMISE (input class for the harness)
}

type Defect struct {
	Name     string
	Section  string
	Codes    []uint32 // acceptable error codes
	ConnOnly bool     // RFC: MUST be a connection error (no stream to blame / explicit text)
	Order    bool     // a frame-sequence defect (§4.3, §6.2, §6.10), not a defect of the frame itself
	Caller   bool     // upstream Framer leaves this to its caller
}

func (d Defect) String() string {
	k := "stream-or-connection"
	if d.ConnOnly {
		k = "connection"
	}
	return fmt.Sprintf("%s (RFC 7540 %s: %s error, code %v)", d.Name, d.Section, k, d.Codes)
}

type FrameVerdict int

const (
	FrameOK          FrameVerdict = iota // must be returned with exactly these fields
	FrameReject                          // must be rejected with one of Defects
	FrameImplDefined                     // either returned with these fields or rejected with one of MayReject
	FrameIncomplete                      // raw is not exactly one frame (caller error)
)

func (v FrameVerdict) String() string {
	return [...]string{"ok", "reject", "impl-defined", "incomplete"}[v]
}

type FrameResult struct {
	Verdict      FrameVerdict
	Frame        PFrame
	Defects      []Defect   // Caller=false: the Framer's job
	CallerChecks []Defect   // Caller=true: present in the frame, left to the consumer
	MayReject    []Defect   // optional rejections (§6.1 non-zero padding)
	Next         FrameState // reader state after this frame (== input state when rejected)
}

func be32(b []byte) uint32 {
	return uint32(b[0])<<24 | uint32(b[1])<<16 | uint32(b[2])<<8 | uint32(b[3])
}

// SplitFrame cuts the first frame off a byte stream (§4.1 layout only).
// hdrOK: at least 9 bytes. complete: header and the whole payload are there.
func SplitFrame(b []byte) (length uint32, frame, rest []byte, hdrOK, complete bool) {
	if len(b) < 9 {
		return 0, nil, b, false, false
	}
	length = uint32(b[0])<<16 | uint32(b[1])<<8 | uint32(b[2])
	if uint64(len(b)-9) < uint64(length) {
		return length, b, nil, true, false
	}
	return length, b[:9+length], b[9+length:], true, true
}

func carriesHeaderBlock(t uint8) bool {
	return t == FHeaders || t == FPushPromise || t == FContinuation
}

// ParseFrame judges one frame. When the length field exceeds st.MaxFrameSize
// only the 9 header bytes are looked at (the payload need not be supplied).
func ParseFrame(raw []byte, st FrameState) FrameResult {
	res := FrameResult{Next: st}
	if len(raw) < 9 {
		res.Verdict = FrameIncomplete
		return res
	}
	f := &res.Frame
	f.Length = uint32(raw[0])<<16 | uint32(raw[1])<<8 | uint32(raw[2])
	f.Type, f.Flags = raw[3], raw[4]
	f.StreamID = be32(raw[5:9]) & 0x7fffffff
	sid := f.StreamID
	add := func(name, sec string, conn bool, codes ...uint32) {
		res.Defects = append(res.Defects, Defect{Name: name, Section: sec, Codes: codes, ConnOnly: conn})
	}
	caller := func(name, sec string, conn bool, codes ...uint32) {
		res.CallerChecks = append(res.CallerChecks, Defect{Name: name, Section: sec, Codes: codes, ConnOnly: conn, Caller: true})
	}

	// §4.2: "An endpoint MUST send an error code of FRAME_SIZE_ERROR if a frame
	// exceeds the size defined in SETTINGS_MAX_FRAME_SIZE ... A frame size error in
	// a frame that could alter the state of the entire connection MUST be treated
	// as a connection error; this includes any frame carrying a header block,
	// SETTINGS, and any frame with a stream identifier of 0."
	if f.Length > st.MaxFrameSize {
		add("frame-too-large", "§4.2", carriesHeaderBlock(f.Type) || f.Type == FSettings || sid == 0, EFrameSize)
		res.Verdict = FrameReject
		return res
	}
	if uint64(len(raw)-9) != uint64(f.Length) {
		res.Verdict = FrameIncomplete
		return res
	}
	p := raw[9:]

	// §4.3 / §6.2 / §6.10: a header block is a contiguous run of frames on one stream.
	if st.BlockOpen {
		if f.Type != FContinuation {
			res.Defects = append(res.Defects, Defect{Name: "frame-inside-header-block", Section: "§6.2", Codes: []uint32{EProtocol}, ConnOnly: true, Order: true})
		} else if sid != st.BlockStream {
			res.Defects = append(res.Defects, Defect{Name: "continuation-on-other-stream", Section: "§6.10", Codes: []uint32{EProtocol}, ConnOnly: true, Order: true})
		}
	} else if f.Type == FContinuation {
		res.Defects = append(res.Defects, Defect{Name: "unexpected-continuation", Section: "§6.10", Codes: []uint32{EProtocol}, ConnOnly: true, Order: true})
	}

	// too small for a mandatory field: §4.2 FRAME_SIZE_ERROR (a receiver that
	// reads "pad length >= payload length" first may say PROTOCOL_ERROR, §6.1/§6.2).
	short := func(conn bool) {
		add("payload-too-short-for-mandatory-field", "§4.2", conn, EFrameSize, EProtocol)
	}
	nonZeroPad := false
	// takePadding removes the Pad Length octet and the padding; ok=false when a defect was recorded.
	takePadding := func(body []byte, fixed int, conn bool, sec string) ([]byte, bool) {
		// body starts with Pad Length; `fixed` more mandatory octets follow it
		if len(body) < 1+fixed {
			short(conn || carriesHeaderBlock(f.Type))
			return nil, false
		}
		f.Padded, f.PadLen = true, int(body[0])
		rest := body[1:]
		if f.PadLen > len(rest)-fixed {
			// §6.1: "If the length of the padding is the length of the frame payload or
			// greater, the recipient MUST treat this as a connection error of type
			// PROTOCOL_ERROR." §6.2: "Padding that exceeds the size remaining for the
			// header block fragment MUST be treated as a PROTOCOL_ERROR." (kind not stated)
			add("padding-exceeds-payload", sec, conn, EProtocol)
			return nil, false
		}
		for _, b := range rest[len(rest)-f.PadLen:] {
			if b != 0 {
				nonZeroPad = true
			}
		}
		return rest[:len(rest)-f.PadLen], true
	}

	switch f.Type {
	case FData: // §6.1
		if sid == 0 {
			add("data-on-stream-0", "§6.1", true, EProtocol)
		}
		body := p
		ok := true
		if f.Flags&FlPadded != 0 {
			body, ok = takePadding(p, 0, true, "§6.1")
		}
		if ok {
			f.Body = body
		}

	case FHeaders: // §6.2
		if sid == 0 {
			add("headers-on-stream-0", "§6.2", true, EProtocol)
		}
		fixed := 0
		if f.Flags&FlPriority != 0 {
			fixed = 5
		}
		body := p
		ok := true
		if f.Flags&FlPadded != 0 {
			body, ok = takePadding(p, fixed, false, "§6.2")
		} else if len(body) < fixed {
			short(true)
			ok = false
		}
		if ok {
			if fixed == 5 {
				v := be32(body)
				f.HasPriority, f.Dep, f.Exclusive, f.Weight = true, v&0x7fffffff, v>>31 == 1, body[4]
				body = body[5:]
				if f.Dep == sid {
					// left to caller: serverConn.processHeaders / checkPriority reject a
					// stream that depends on itself; the Framer only decodes the field.
					caller("stream-depends-on-itself", "§5.3.1", false, EProtocol)
				}
			}
			f.Body = body
		}

	case FPriority: // §6.3
		if sid == 0 {
			add("priority-on-stream-0", "§6.3", true, EProtocol)
		}
		if len(p) != 5 {
			// "A PRIORITY frame with a length other than 5 octets MUST be treated as a
			// stream error of type FRAME_SIZE_ERROR."
			add("priority-length-not-5", "§6.3", false, EFrameSize)
		} else {
			v := be32(p)
			f.HasPriority, f.Dep, f.Exclusive, f.Weight = true, v&0x7fffffff, v>>31 == 1, p[4]
			if f.Dep == sid {
				caller("stream-depends-on-itself", "§5.3.1", false, EProtocol) // left to caller, as for HEADERS
			}
		}

	case FRSTStream: // §6.4
		if sid == 0 {
			add("rst-on-stream-0", "§6.4", true, EProtocol)
		}
		if len(p) != 4 {
			add("rst-length-not-4", "§6.4", true, EFrameSize)
		} else {
			f.ErrCode = be32(p)
		}

	case FSettings: // §6.5
		if sid != 0 {
			add("settings-on-a-stream", "§6.5", true, EProtocol)
		}
		if f.Flags&FlAck != 0 && len(p) != 0 {
			add("settings-ack-with-payload", "§6.5", true, EFrameSize)
		}
		if len(p)%6 != 0 {
			add("settings-length-not-multiple-of-6", "§6.5", true, EFrameSize)
		} else {
			seenIWS := false
			for i := 0; i+6 <= len(p); i += 6 {
				s := FSetting{ID: uint16(p[i])<<8 | uint16(p[i+1]), Val: be32(p[i+2:])}
				f.Settings = append(f.Settings, s)
				switch s.ID {
				case 2: // ENABLE_PUSH. Left to caller: Setting.Valid(), called by serverConn.processSetting.
					if s.Val > 1 {
						caller("enable-push-not-0-or-1", "§6.5.2", true, EProtocol)
					}
				case 4: // INITIAL_WINDOW_SIZE
					if s.Val > 1<<31-1 {
						if !seenIWS {
							add("initial-window-size-above-2^31-1", "§6.5.2", true, EFlowControl)
						} else {
							// left to caller: the Framer validates only the first occurrence
							// (SettingsFrame.Value); every occurrence is validated by Setting.Valid()
							// when the consumer walks the list.
							caller("initial-window-size-above-2^31-1 (repeated id)", "§6.5.2", true, EFlowControl)
						}
					}
					seenIWS = true
				case 5: // MAX_FRAME_SIZE. Left to caller: Setting.Valid().
					if s.Val < 1<<14 || s.Val > 1<<24-1 {
						caller("max-frame-size-out-of-range", "§6.5.2", true, EProtocol)
					}
				}
			}
		}

	case FPushPromise: // §6.6
		if sid == 0 {
			add("push-promise-on-stream-0", "§6.6", true, EProtocol)
		}
		body := p
		ok := true
		if f.Flags&FlPadded != 0 {
			// "Padding fields and flags are identical to those defined for DATA frames"
			body, ok = takePadding(p, 4, true, "§6.6")
		} else if len(body) < 4 {
			short(true)
			ok = false
		}
		if ok {
			f.PromiseID = be32(body) & 0x7fffffff
			f.Body = body[4:]
			if f.PromiseID == 0 {
				// left to caller: which promised ids are legal depends on the stream table;
				// the Framer only decodes the field (the server rejects every PUSH_PROMISE).
				caller("promised-stream-id-0", "§6.6", true, EProtocol)
			}
		}

	case FPing: // §6.7
		if len(p) != 8 {
			add("ping-length-not-8", "§6.7", true, EFrameSize)
		} else {
			copy(f.Ping[:], p)
		}
		if sid != 0 {
			add("ping-on-a-stream", "§6.7", true, EProtocol)
		}

	case FGoAway: // §6.8
		if sid != 0 {
			add("goaway-on-a-stream", "§6.8", true, EProtocol)
		}
		if len(p) < 8 {
			add("goaway-shorter-than-8", "§4.2", true, EFrameSize)
		} else {
			f.LastStreamID, f.ErrCode, f.Body = be32(p)&0x7fffffff, be32(p[4:]), p[8:]
		}

	case FWindowUpdate: // §6.9
		if len(p) != 4 {
			add("window-update-length-not-4", "§6.9", true, EFrameSize)
		} else {
			f.Increment = be32(p) & 0x7fffffff
			if f.Increment == 0 {
				// "stream error of type PROTOCOL_ERROR; errors on the connection flow-control
				// window MUST be treated as a connection error"
				add("window-increment-0", "§6.9", sid == 0, EProtocol)
			}
		}

	case FContinuation: // §6.10
		if sid == 0 {
			add("continuation-on-stream-0", "§6.10", true, EProtocol)
		}
		f.Body = p

	default: // §4.1: "Implementations MUST ignore and discard any frame that has a type that is unknown."
		f.Body = p
	}

	if len(res.Defects) > 0 {
		res.Verdict = FrameReject
		res.Frame = PFrame{Length: f.Length, Type: f.Type, Flags: f.Flags, StreamID: f.StreamID}
		return res
	}
	if carriesHeaderBlock(f.Type) {
		res.Next.BlockOpen = f.Flags&FlEndHeaders == 0
		res.Next.BlockStream = sid
		res.Next.BlockByPush = res.Next.BlockOpen && (f.Type == FPushPromise || (f.Type == FContinuation && st.BlockByPush))
		if !res.Next.BlockOpen {
			res.Next.BlockStream = 0
		}
	}
	if nonZeroPad {
		// §6.1: "A receiver is not obligated to verify padding but MAY treat non-zero
		// padding as a connection error of type PROTOCOL_ERROR."
		res.Verdict = FrameImplDefined
		res.MayReject = []Defect{{Name: "non-zero-padding", Section: "§6.1", Codes: []uint32{EProtocol}, ConnOnly: true}}
		return res
	}
	res.Verdict = FrameOK
	return res
}
