package ref

import (
	"fmt"
	"strings"
)

// Reference for the Akamai-style HTTP/2 fingerprint "S|WU|P|PS" as the
// property states it, computed from the client's frame history.

type H2Frame struct {
	Kind     string      `json:"kind"` // settings, settings_ack, window_update, priority, headers, other
	Settings [][2]uint32 `json:"settings,omitempty"`
	Incr     uint32      `json:"incr,omitempty"`
	StreamID uint32      `json:"stream,omitempty"`
	HasPrio  bool        `json:"has_prio,omitempty"`
	Dep      uint32      `json:"dep,omitempty"`
	Excl     bool        `json:"excl,omitempty"`
	Weight   uint8       `json:"weight,omitempty"`
	Names    []string    `json:"header_names,omitempty"` // all field names of a complete header block, in order
}

type akState struct {
	settings    [][2]uint32
	hasSettings bool
	wu          uint32
	hasWU       bool
	prios       []string
	pseudo      []string
}

func (s *akState) apply(f H2Frame) {
	switch f.Kind {
	case "settings":
		s.settings, s.hasSettings = f.Settings, true
	case "window_update":
		if !s.hasWU {
			s.wu, s.hasWU = f.Incr, true
		}
	case "priority":
		s.prios = append(s.prios, prio(f))
	case "headers":
		if f.HasPrio {
			s.prios = append(s.prios, prio(f))
		}
		s.pseudo = s.pseudo[:0]
		for _, n := range f.Names {
			if len(n) >= 2 && n[0] == ':' {
				s.pseudo = append(s.pseudo, n[1:2])
			}
		}
	}
}

func prio(f H2Frame) string {
	e := 0
	if f.Excl {
		e = 1
	}
	return fmt.Sprintf("%d:%d:%d:%d", f.StreamID, e, f.Dep, int(f.Weight)+1)
}

func (s *akState) render(maxPrio uint64) string {
	var sb strings.Builder
	for i, kv := range s.settings {
		if i > 0 {
			sb.WriteByte(';')
		}
		fmt.Fprintf(&sb, "%d:%d", kv[0], kv[1])
	}
	sb.WriteByte('|')
	if s.hasWU {
		fmt.Fprintf(&sb, "%02d", s.wu)
	} else {
		sb.WriteString("00")
	}
	sb.WriteByte('|')
	n := uint64(len(s.prios))
	if maxPrio < n {
		n = maxPrio
	}
	if n == 0 {
		sb.WriteByte('0')
	} else {
		sb.WriteString(strings.Join(s.prios[:n], ","))
	}
	sb.WriteByte('|')
	sb.WriteString(strings.Join(s.pseudo, ","))
	return sb.String()
}

// Akamai returns the fingerprint of history[:n] with at most maxPrio priority entries.
func Akamai(history []H2Frame, n int, maxPrio uint64) string {
	var s akState
	for _, f := range history[:n] {
		s.apply(f)
	}
	return s.render(maxPrio)
}

// AkamaiAll returns the fingerprint after every prefix length 0..len(history).
func AkamaiAll(history []H2Frame, maxPrio uint64) []string {
	out := make([]string, 0, len(history)+1)
	var s akState
	out = append(out, s.render(maxPrio))
	for _, f := range history {
		s.apply(f)
		out = append(out, s.render(maxPrio))
	}
	return out
}
